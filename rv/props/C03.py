"""C03 - Pauli operator arithmetic is faithful to matrix arithmetic."""
import cmath
import math

import numpy as np

from ..core import Exhausted
from ..gen import pauliops as G
from fractions import Fraction

from ..gen import paulibig as GB
from ..gen import paulimag as GM
from ..ref import paulidense as D
from ..ref import pauliexact as X

ID = "C03"
LEVEL = "exploration"
LEVEL_NOTE = (
    "trusted: rv/ref/paulidense.py + rv/ref/pauli.py (dense Pauli matrices by bit arithmetic, cross-checked "
    "against each other at start-up), numpy; tolerance 1e-12*scale for dyadic coefficients (multiples of 1/8: "
    "every intermediate exact), 1e-12*scale + 1e-8*(#terms+1) for generic floats (the library drops |c|<=1e-8); "
    "equality is only judged outside the tolerance grey zone; widths <= 7 used qubits; large magnitudes and "
    "exponents above 8: rv/ref/pauliexact.py (Pauli strings as bit masks, coefficients as exact rationals, "
    "cross-checked against the dense reference at start-up), each string's coefficient to 1e-12 of its uncancelled size"
)
RULE = (
    "seeded generator by input class: pairs_exh = EVERY ordered pair of Pauli strings on 2 qubits (256, quick) / "
    "3 qubits (4096, thorough), each with one dyadic and one generic complex coefficient pair, through * in both "
    "orders, + and -, term/sum mixtures; sums = random terms and sums of 0-5 terms (duplicates, cancelling "
    "duplicates, zero coefficients, constants, empty sum, qubit indices with gaps up to 12) under + - *; scalars = "
    "int/float/complex/bool on either side of + - * and as divisor; powers = exponents 0-5 (and rejected ones), one "
    "case in seven exponents 9-64 of terms and of sums on <= 2 qubits; "
    "simplify = un-simplified sums incl. coefficients around the 1e-8 drop threshold; equality = pairs denoting "
    "the same matrix by different routes / term orders / coefficient types and pairs differing by >= 1e-3; "
    "magnitudes = coefficients from 1e-5 to 1e6 (dyadic: k*2^e, e = -10..17): like terms with LARGE coefficients that "
    "nearly cancel (residual/|coefficient| log-uniform in 1e-10..1e-3, residual itself >= 100x the 1e-8 drop threshold) "
    "through simplify, + and - of terms / sums / builtin sum, product cross terms that nearly cancel, sums mixing very "
    "large and very small coefficients, scalars and divisors of extreme size; history = one to three operands that are "
    "first USED (hashed, put in sets / dict keys, compared, simplified, printed, circuits / cached properties read, "
    "arithmetic discarded) and only then combined (scalar * and /, + - * **, chains through earlier results); each "
    "result is compared in both directions with an operator built independently from its own terms in another order "
    "and with a perturbed one, equal terms must hash alike, and the operands must still denote their matrices; "
    "bigcoef = EXACT integer coefficients (Python ints, a share spelled as integer-valued floats / complex, Gaussian "
    "integers, a few non-integral floats) whose powers, products and sums cross 2^31, 2^32, 2^53, 2^63, 2^64, 2^100, "
    "2^127, 2^128, 3.4e38, 2^200, 1e150, 2^512, 2^900 while every operand is far inside: term ** n (bases 2..16 with "
    "exponents up to ~900, bases 1e2..1e6 with moderate exponents, k-th roots of a boundary +-1 to the k, bases below 1 "
    "up to exponent 1100) alone, as one-term sum, as repeated product and as x^a * x^(n-a); sums of 2-3 terms on <= 2 "
    "qubits to exponents 9-100; products of terms / sums whose coefficient products land on a boundary (both orders, "
    "squares and cubes, a third factor); like terms whose integer coefficients add up across a boundary (each part "
    "inside it, boundary-1 plus 1, twice the boundary coming back down) through simplify, + and - of terms / sums, "
    "builtin sum, constants arriving as plain numbers; int / float / complex scalars on either side and as divisor; one "
    "integer reached by different routes compared (and hashed) against itself and against integers that differ from it "
    "by 2^31, 2^32, 2^63, 2^64. "
    "non-trivial = a Y operator or two different letters on one qubit is involved, or a sum with >= 2 terms, or (bigcoef) "
    "an exact result of at least 2^31; "
    "distinct = distinct canonical case strings"
)
ASSUMPTIONS = [
    "oracle = dense matrices filled by bit arithmetic on the order-preserving relabelling of the used qubits (<= 7)",
    "equality is judged only when the two matrices agree to 1e-10 (expect ==) or some coefficient differs by >= 1e-4*max(1,|c|) (expect !=), "
    "and no coefficient lies within 1e-9 of a round(c*1e6) hash-bucket boundary; in between the property gives no verdict",
    "equality is judged between simplified operators only (PauliTerm, or PauliSum without like terms and without |c|<=1e-8); "
    "a plain number is lifted to the constant term c*I, so 'empty sum == 0' compares with the un-simplified term 0*I and is "
    "counted as out of domain (observed result recorded under observed['eq:empty-sum-vs-zero-number'])",
    "numpy scalars as operands and non-finite coefficients are outside the workload",
    "coefficients are plain Python numbers (bool, int of any size, float, complex); Fraction / Decimal / sympy numbers are "
    "not: the constructor stores them but scalars of these types are rejected by the library's own type check and the "
    "annotated coefficient type is complex",
    "large magnitudes (a coefficient >= 2^24, a product >= 2^45, an exponent > 8, every call of the bigcoef class) are judged "
    "by exact rational arithmetic, string by string: |result - exact| <= 1e-12 * (sum of the absolute values of everything "
    "that contributes to that string) [* bit length of the exponent for **], plus the 1e-8 drop slack of the dense oracle "
    "unless every operand coefficient is an integer (integers stay integers under + - * **, so nothing but an exact zero "
    "may be dropped whatever the exponent; for ** of a single string the slack is 2e-8 flat). This is the accuracy any "
    "order of binary64 evaluation keeps; exactness of Python-int coefficients beyond it is NOT demanded (the library itself "
    "turns them into floats in ** and in products with a phase)",
    "a call whose uncancelled result (or an operand) exceeds 1e300, or a divisor below 1e-300, is out of domain: binary64 "
    "cannot hold the result, the unchanged library answers inf or raises OverflowError there (observed: PauliTerm('X0', 2) "
    "** 1100 = inf*I, 2**1100 * term raises, hash of a coefficient above 1.8e302 raises), and the property speaks of real "
    "and complex coefficients, which an overflowed value is not; a finite legal result below that bound must be the right one",
    "== is not judged when a coefficient exceeds 1e150 (the dense reference would have to square it)",
    "** of a sum that can reach more than 256 distinct strings is judged up to exponent 8 only (dense reference)",
    "operand-unchanged: an arithmetic operation, comparison, hash or simplification leaves the matrices denoted by its "
    "operands as they were (otherwise 'the corresponding matrix operation' on those operands is not defined for the next use)",
]
_OPS = ["__add__", "__radd__", "__sub__", "__rsub__", "__mul__", "__rmul__", "__truediv__", "__pow__", "__eq__"]
DECIDING = (
    [f"PauliTerm.{o}" for o in _OPS] + [f"PauliSum.{o}" for o in _OPS]
    + ["PauliSum.simplify", "PauliTerm.__hash__", "hash-consistent", "eq-symmetric", "operand-unchanged"]
)
BRANCHES = [
    "_efficient_exponentiation:zero", "_efficient_exponentiation:odd", "_efficient_exponentiation:even",
    "PauliTerm._multiply_by_operator:new", "PauliTerm._multiply_by_operator:cancel",
    "PauliTerm._multiply_by_operator:third", "PauliSum.simplify:single", "PauliSum.simplify:merge",
]
EXHAUSTIVE = {"pairs_exh": "all ordered pairs of Pauli strings on 2 qubits (quick: 256) / 3 qubits (thorough: 4096), "
                           "each with a dyadic and a generic complex coefficient pair"}
BUDGET = {"quick": (4, 25, 3200), "thorough": (16, 150, 100000)}

MAXN = 7
_LIB = None


def classes(tier):
    return ["pairs_exh", "sums", "scalars", "powers", "simplify", "equality", "magnitudes", "history", "bigcoef"]


# ----------------------------------------------------------------------------- oracle helpers
def _lib():
    global _LIB
    if _LIB is None:
        from orquestra.quantum.operators import _pauli_operators as PO

        _LIB = (PO.PauliTerm, PO.PauliSum)
    return _LIB


def _operand(x):
    """('term'|'sum', term list) / ('num', complex) / None = outside the oracle's domain"""
    T, S = _lib()
    if isinstance(x, (T, S)):
        tl = D.term_list(x)
        if tl is None:
            return None
        return ("term" if isinstance(x, T) else "sum", tl)
    if isinstance(x, (bool, int, float, complex)):
        try:
            c = complex(x)
        except Exception:
            return None
        return ("num", c) if cmath.isfinite(c) else None
    return None


def _dy(x):
    return abs(x) <= 2.0**20 and float(x * 32768.0).is_integer()


def _dyadic(opd):
    """every coefficient is a multiple of 2^-15 of moderate size: sums and products of a few
    such numbers are exact, so nothing but an exact zero can fall under the drop threshold"""
    if opd[0] == "num":
        return _dy(opd[1].real) and _dy(opd[1].imag)
    return all(_dy(c.real) and _dy(c.imag) for _, c in opd[1])


def _gran(opd):
    """granularity of a dyadic operand: the largest 2^-a (a <= 15, at most 1) that every real and imaginary
    coefficient part is a multiple of.  A product of operands has granularity g1 * g2, a p-th power g^p, and every
    non-zero coefficient of the exact result is at least that large: only when it stays clear of the library's
    1e-8 drop threshold is "nothing but an exact zero is dropped" true (2^-9 cubed = 7.5e-9 is dropped)"""
    parts = [opd[1].real, opd[1].imag] if opd[0] == "num" else [x for _, c in opd[1] for x in (c.real, c.imag)]
    g = 1.0
    for x in parts:
        m = int(round(abs(x) * 2**15))
        if m:
            g = min(g, (m & -m) / 2**15)
    return g


CLEAR_OF_DROP = 1e-7


def _norm(opd):
    return abs(opd[1]) if opd[0] == "num" else D.abs_sum(opd[1])


def _nterms(opd):
    return 1 if opd[0] == "num" else len(opd[1])


def _mat(opd, qmap, n):
    return D.scalar(opd[1], n) if opd[0] == "num" else D.dense(opd[1], n, qmap)


def _maxabs(M):
    return float(np.abs(M).max()) if M.size else 0.0


def _register(*opds):
    qmap, n = D.compress(*[o[1] for o in opds if o[0] != "num"])
    return qmap, n


# ----------------------------------------------------------------------------- exact oracle (large magnitudes)
# Calls whose operands or results are LARGE (a coefficient of 2^24 or more, a product of 2^45 or more, an exponent
# above 8) and every call of the `bigcoef` class are judged by the exact reference rv/ref/pauliexact.py instead of
# the dense double-precision one: operands are read as exact rationals (Python ints of any size, binary64 floats),
# the expected operator is computed without rounding, and the result is compared STRING BY STRING to
#     REL * weight(string)   (+ the 1e-8 drop slack unless every operand coefficient is an integer)
# where weight(string) is what the coefficient would be if nothing cancelled.  Floating point evaluation in any
# order stays within a few units in the last place of that weight, so nothing stricter than the dense oracle's
# 1e-12 relative accuracy is demanded - but a term that is wrong by 2^64 is seen even when another term of the same
# operator is 1e40, and no comparison can overflow.  Integer operands have integer results under + - * **
# (granularity 1, clear of the 1e-8 drop threshold for every power), so the slack-free regime applies to them only.
BIG_COEFF = 2.0**24
BIG_SCALE = 2.0**45
RANGE = Fraction(10) ** 300  # results whose uncancelled size exceeds this are out of domain (binary64 would overflow)
REL = Fraction(1, 10**12)
DROP = Fraction(1, 10**8)
_EXACT_ALL = False  # set while a `bigcoef` case runs


def _xoperand(x):
    T, S = _lib()
    if isinstance(x, (T, S)):
        tl = X.term_list(x)
        return None if tl is None else ("term" if isinstance(x, T) else "sum", tl)
    if isinstance(x, (bool, int, float, complex)):
        c = X.number(x)
        return None if c is None else ("num", c)
    return None


def _xop(opd):
    return X.constant(opd[1]) if opd[0] == "num" else X.operator(opd[1])


def _maxmag(x):
    """largest |coefficient| of a library object / |x| of a number as a float; inf when it cannot be told"""
    try:
        if isinstance(x, (bool, int, float, complex)):
            return float(abs(x))
        return max([float(abs(t.coefficient)) for t in x.terms], default=0.0)
    except Exception:
        return math.inf


def _big_binary(sym, left, right):
    if _EXACT_ALL:
        return True
    a, b = _maxmag(left), _maxmag(right)
    if a >= BIG_COEFF or b >= BIG_COEFF:
        return True
    if sym == "*":
        return a * b >= BIG_SCALE
    if sym == "/":
        return b != 0 and a / b >= BIG_SCALE
    return False


def _big_pow(base, power):
    if _EXACT_ALL or power > 8:
        return True
    m = _maxmag(base)
    return m >= BIG_COEFF or (m > 1 and power * math.log2(m) >= 45)


def _mismatch_text(bad):
    key, got, want, err, tol = bad

    def f(v):
        return f"{float(v):.3e}" if abs(v) < 10**300 else "over 1e300"

    return (f"coefficient of {X.fmt_key(key)} is {X.show(got)}, exact value {X.show(want)} "
            f"(off by {f(err)}, allowed {f(tol)})")


def _exact_binary(mon, hook, sym, left, right, call, text):
    """True when the call has been dealt with here (verdict or out of domain); False = let the dense oracle decide"""
    L, R = _xoperand(left), _xoperand(right)
    if L is None or R is None or (L[0] == "num" and R[0] == "num"):
        return False
    if sym == "/" and (R[0] != "num" or R[1] == (0, 0)):
        return False
    a = _xop(L)
    nl, nr = _nterms(L), _nterms(R)
    if sym == "/":
        if X.mag(R[1]) < 1 / RANGE:
            mon.note("exact:beyond-binary64-range")
            mon.out_of_domain(hook)
            return True
        exp, nt = X.scale(a, R[1], divide=True), nl
    else:
        b = _xop(R)
        if sym == "+":
            exp, nt = X.add(a, b), nl + nr
        elif sym == "-":
            exp, nt = X.add(a, b, -1), nl + nr
        else:
            exp, nt = X.mul(a, b), nl * nr
    if X.total_weight(exp) > RANGE or X.total_weight(a) > RANGE or (sym != "/" and X.total_weight(b) > RANGE):
        mon.note("exact:beyond-binary64-range")
        mon.out_of_domain(hook)
        return True
    if call.exc is not None:
        mon.violation(f"raises:{hook}", f"{text()} raised {call.exc!r}")
        return True
    res = _xoperand(call.result)
    if res is None or res[0] == "num":
        mon.violation(f"result-type:{hook}", f"{text()} returned {call.result!r}")
        return True
    integral = sym != "/" and X.all_integral(L[1], R[1])
    slack = Fraction(0) if integral else DROP * (nt + 1)
    bad = X.compare(res[1], exp, REL, slack)
    mon.note("regime:exact-integers" if integral else "regime:exact-generic")
    if bad is not None:
        mon.violation(f"wrong-matrix:{hook}", f"{text()} = {call.result!r}: {_mismatch_text(bad)}")
    else:
        mon.ok(hook)
    return True


def _exact_pow(mon, hook, base, power, call):
    B = _xoperand(base)
    if B is None or B[0] == "num":
        return False
    keys = {k for k, _ in B[1]}
    used = 0
    for x, z in keys:
        used |= x | z
    w = bin(used).count("1")
    k = min(max(1, len(keys)) ** max(1, power), 4**w)
    if k > 256 or power > 5000:
        return False
    a = _xop(B)
    s = max(Fraction(1), X.total_weight(a))
    if power * math.log10(float(s) if s < RANGE else 1e300) > 300:
        mon.note("exact:beyond-binary64-range")
        mon.out_of_domain(hook)
        return True
    if call.exc is not None:
        mon.violation(f"raises:{hook}", f"({base!r}) ** {power} raised {call.exc!r}")
        return True
    res = _xoperand(call.result)
    if res is None or res[0] == "num":
        mon.violation(f"result-type:{hook}", f"({base!r}) ** {power} returned {call.result!r}")
        return True
    exp = X.power(a, power)
    integral = X.all_integral(B[1])
    if integral:
        slack = Fraction(0)
    elif len(keys) <= 1:
        # one string: nothing is ever added, so the only thing the 1e-8 threshold can do is flush the final
        # coefficient (an intermediate one is below it only if the final one is, or the base exceeds 1)
        slack = 2 * DROP
    else:
        slack = DROP * (k + 1) * max(1, power) * s ** max(0, power - 1)
    bad = X.compare(res[1], exp, REL * max(1, power.bit_length()), slack)
    mon.note(f"pow:exponent={power if power <= 8 else '9-16' if power <= 16 else '17-64' if power <= 64 else '65+'}")
    mon.note("regime:exact-integers" if integral else "regime:exact-generic")
    if bad is not None:
        mon.violation(f"wrong-matrix:{hook}", f"({base!r}) ** {power} = {call.result!r}: {_mismatch_text(bad)}")
    else:
        mon.ok(hook)
    return True


# ----------------------------------------------------------------------------- monitors: + - * /
def _mk_binary(hook, sym, reflected):
    def post(mon, call):
        me = call.args[0]
        other = call.args[1] if len(call.args) > 1 else call.kwargs.get("other")
        left, right = (other, me) if reflected else (me, other)
        if _big_binary(sym, left, right) and _exact_binary(
                mon, hook, sym, left, right, call, lambda: f"{left!r} {sym} {right!r}"):
            return
        L, R = _operand(left), _operand(right)
        if L is None or R is None or (L[0] == "num" and R[0] == "num") or (sym == "/" and R[0] != "num"):
            mon.out_of_domain(hook)
            return
        text = lambda: f"{left!r} {sym} {right!r}"  # noqa: E731
        if sym == "/" and R[1] == 0:
            if isinstance(call.exc, ZeroDivisionError):
                mon.note("division-by-zero:ZeroDivisionError")
            mon.out_of_domain(hook)
            return
        if call.exc is not None:
            mon.violation(f"raises:{hook}", f"{text()} raised {call.exc!r}")
            return
        res = _operand(call.result)
        if res is None or res[0] == "num":
            mon.violation(f"result-type:{hook}", f"{text()} returned {call.result!r}")
            return
        qmap, n = _register(L, R, res)
        if n > MAXN:
            mon.out_of_domain(hook)
            return
        ML, MR = _mat(L, qmap, n), _mat(R, qmap, n)
        sl, sr = _norm(L), _norm(R)
        if sym == "+":
            exp, scale, nt = ML + MR, sl + sr, _nterms(L) + _nterms(R)
        elif sym == "-":
            exp, scale, nt = ML - MR, sl + sr, _nterms(L) + _nterms(R)
        elif sym == "*":
            exp, scale, nt = ML @ MR, sl * sr, _nterms(L) * _nterms(R)
        else:
            exp, scale, nt = ML / R[1], sl / abs(R[1]), _nterms(L)
        if sym == "/":
            small = [abs(c) / abs(R[1]) for _, c in L[1] if c != 0]
            tight = _dyadic(L) and (not small or min(small) >= 1e-6)
        else:
            tight = _dyadic(L) and _dyadic(R) and (sym != "*" or _gran(L) * _gran(R) >= CLEAR_OF_DROP)
        tol = 1e-12 * max(1.0, scale) + (0.0 if tight else 1e-8 * (nt + 1))
        d = _maxabs(_mat(res, qmap, n) - exp)
        mon.note("regime:dyadic" if tight else "regime:generic")
        if not d <= tol:
            mon.violation(
                f"wrong-matrix:{hook}",
                f"{text()} = {call.result!r}: max |M(result) - M(left){sym}M(right)| = {d:.3e} > {tol:.3e} on {n} qubits",
            )
        else:
            mon.ok(hook)

    return post


def _mk_pow(hook):
    def post(mon, call):
        base = call.args[0]
        power = call.args[1] if len(call.args) > 1 else call.kwargs.get("power")
        B = _operand(base)
        if B is None or B[0] == "num":
            mon.out_of_domain(hook)
            return
        if not isinstance(power, int) or power < 0:
            if isinstance(call.exc, ValueError):
                mon.note("pow-rejected-exponent:ValueError")
            mon.out_of_domain(hook)  # the property speaks of non-negative integer powers only
            return
        power = int(power)
        if _big_pow(base, power) and _exact_pow(mon, hook, base, power, call):
            return
        if power > 8:
            mon.note("pow:large-exponent-of-a-wide-sum")
            mon.out_of_domain(hook)
            return
        if call.exc is not None:
            mon.violation(f"raises:{hook}", f"({base!r}) ** {power} raised {call.exc!r}")
            return
        res = _operand(call.result)
        if res is None or res[0] == "num":
            mon.violation(f"result-type:{hook}", f"({base!r}) ** {power} returned {call.result!r}")
            return
        qmap, n = _register(B, res)
        if n > MAXN:
            mon.out_of_domain(hook)
            return
        M = _mat(B, qmap, n)
        exp = np.linalg.matrix_power(M, power)
        s = max(1.0, _norm(B))
        tight = _dyadic(B) and _gran(B) ** max(1, power) >= CLEAR_OF_DROP
        w = len(D.qubits_of(B[1]))
        k = min(max(1, len(B[1])) ** max(1, power), 4**w)
        tol = 1e-12 * s**power + (0.0 if tight else 1e-8 * (k + 1) * max(1, power) * s ** max(0, power - 1))
        d = _maxabs(_mat(res, qmap, n) - exp)
        mon.note(f"pow:exponent={power}")
        if not d <= tol:
            mon.violation(
                f"wrong-matrix:{hook}",
                f"({base!r}) ** {power} = {call.result!r}: max |M(result) - M(base)^{power}| = {d:.3e} > {tol:.3e}",
            )
        else:
            mon.ok(hook)

    return post


# ----------------------------------------------------------------------------- monitor: simplify
def _pre_simplify(mon, call):
    me = call.args[0]
    big = _EXACT_ALL or _maxmag(me) >= BIG_COEFF
    return D.term_list(me), (X.term_list(me) if big else None)


def _exact_simplify(mon, hook, xbefore, call):
    exp = X.operator(xbefore)
    if X.total_weight(exp) > RANGE:
        mon.note("exact:beyond-binary64-range")
        mon.out_of_domain(hook)
        return
    shown = lambda: " + ".join(f"{X.show(c)}*{X.fmt_key(k)}" for k, c in xbefore)  # noqa: E731
    if call.exc is not None:
        mon.violation(f"raises:{hook}", f"simplify of {shown()} raised {call.exc!r}")
        return
    res = _xoperand(call.result)
    if res is None or res[0] != "sum":
        mon.violation(f"result-type:{hook}", f"simplify of {shown()} returned {call.result!r}")
        return
    integral = X.all_integral(xbefore)
    bad = X.compare(res[1], exp, REL, Fraction(0) if integral else DROP * (len(xbefore) + 1))
    if len(res[1]) < len(xbefore):
        mon.note("simplify:merged-or-dropped")
    mon.note("regime:exact-integers" if integral else "regime:exact-generic")
    if bad is not None:
        mon.violation("simplify-changes-matrix", f"simplify of {shown()} gave {call.result!r}: {_mismatch_text(bad)}")
    else:
        mon.ok(hook)


def _post_simplify(mon, call):
    hook = "PauliSum.simplify"
    before, xbefore = call.pre if call.pre is not None else (None, None)
    if xbefore is not None:
        _exact_simplify(mon, hook, xbefore, call)
        return
    if before is None:
        mon.out_of_domain(hook)
        return
    if call.exc is not None:
        mon.violation(f"raises:{hook}", f"simplify of {before!r} raised {call.exc!r}")
        return
    res = _operand(call.result)
    if res is None or res[0] != "sum":
        mon.violation(f"result-type:{hook}", f"simplify of {before!r} returned {call.result!r}")
        return
    qmap, n = D.compress(before, res[1])
    if n > MAXN:
        mon.out_of_domain(hook)
        return
    tight = _dyadic(("sum", before))
    tol = 1e-12 * max(1.0, D.abs_sum(before)) + (0.0 if tight else 1e-8 * (len(before) + 1))
    d = _maxabs(D.dense(res[1], n, qmap) - D.dense(before, n, qmap))
    if len(res[1]) < len(before):
        mon.note("simplify:merged-or-dropped")
    if not d <= tol:
        mon.violation(
            "simplify-changes-matrix",
            f"simplify of {before!r} gave {call.result!r}: max |difference of the matrices| = {d:.3e} > {tol:.3e}",
        )
    else:
        mon.ok(hook)


# ----------------------------------------------------------------------------- monitor: == and hash
def _is_simplified(tl):
    seen = set()
    for ops, c in tl:
        key = tuple(ops)
        if key in seen or abs(c) <= 1e-8:
            return False
        seen.add(key)
    return True


def _near_bucket_boundary(tls):
    for tl in tls:
        for _, c in tl:
            for x in (c.real, c.imag):
                f = (x * 1e6) % 1.0
                if abs(f - 0.5) < 1e-3:
                    return True
    return False


def _mk_eq(hook):
    def post(mon, call):
        a = call.args[0]
        b = call.args[1] if len(call.args) > 1 else call.kwargs.get("other")
        A, B = _operand(a), _operand(b)
        if A is None or B is None or A[0] == "num":
            mon.out_of_domain(hook)
            return
        if B[0] == "num":
            if A[0] == "sum" and not A[1] and abs(B[1]) <= 1e-8:
                # the number is lifted to the un-simplified zero term 0*I (see ASSUMPTIONS)
                mon.note(f"eq:empty-sum-vs-zero-number->{bool(call.result) if call.exc is None else 'raises'}")
                mon.out_of_domain(hook)
                return
            B = ("term", [([], B[1])])
        for opd in (A, B):
            if opd[0] == "sum" and not _is_simplified(opd[1]):
                mon.note("eq:operand-not-simplified")
                mon.out_of_domain(hook)
                return
        if call.exc is not None:
            mon.violation(f"raises:{hook}", f"{a!r} == {b!r} raised {call.exc!r}")
            return
        got = bool(call.result)
        qmap, n = _register(A, B)
        if n > MAXN:
            mon.out_of_domain(hook)
            return
        coeffs = [abs(c) for _, c in A[1]] + [abs(c) for _, c in B[1]]
        cmax = max(coeffs) if coeffs else 0.0
        if not cmax <= 1e150:
            mon.note("eq:beyond-the-dense-reference")  # squares of the entries would overflow
            mon.out_of_domain(hook)
            return
        l2 = D.coeff_l2(_mat(A, qmap, n) - _mat(B, qmap, n), n)
        k = max(1, len({tuple(ops) for ops, _ in A[1]} | {tuple(ops) for ops, _ in B[1]}))
        if l2 <= 1e-10:
            if (A[0] == "sum" or B[0] == "sum") and _near_bucket_boundary([A[1], B[1]]):
                mon.note("eq:hash-bucket-boundary")
                mon.out_of_domain(hook)
                return
            expected = True
        elif l2 / math.sqrt(k) >= EQ_GREY * max(1.0, cmax):
            expected = False
        else:
            mon.note("eq:grey-zone")
            mon.out_of_domain(hook)
            return
        mon.note(f"eq:expected-{expected}")
        if got != expected:
            kind = "eq-false-for-equal-matrices" if expected else "eq-true-for-different-matrices"
            mon.violation(kind, f"({a!r}) == ({b!r}) is {got}; coefficient-space distance of the matrices = {l2:.3e}")
        else:
            mon.ok(hook)

    return post


def _post_hash(mon, call):
    hook = "PauliTerm.__hash__"
    if D.term_list(call.args[0]) is None:
        mon.out_of_domain(hook)
        return
    if call.exc is not None:
        mon.violation("hash-raises", f"hash({call.args[0]!r}) raised {call.exc!r}")
    elif not isinstance(call.result, int):
        mon.violation("hash-raises", f"hash({call.args[0]!r}) returned {call.result!r}")
    else:
        mon.ok(hook)


# The library's term equality is numpy.allclose: |a - b| <= 1e-8 + 1e-5 * |b|.  Between 1e-8 and that bound the
# statement's "1e-8 coefficient tolerance" and the library's tolerance disagree (recorded in DESIGN.md as an
# observation, not judged); from ten times the relative part upwards both readings demand "not equal".
EQ_GREY = 1e-4


def install(mon, reach):
    from orquestra.quantum.operators import _pauli_operators as PO

    D.selfcheck()
    T, S = PO.PauliTerm, PO.PauliSum
    reach.watch(getattr(PO, "_efficient_exponentiation", None), "_efficient_exponentiation", markers={
        "zero": r"\.identity\(\)", "odd": r"return pauli_rep \* _efficient_exponentiation",
        "even": r"return intermediate_result \* intermediate_result"})
    reach.watch(getattr(T, "_multiply_by_operator", None), "PauliTerm._multiply_by_operator", markers={
        "new": r"^\s*result_ops\[index\] = op\s*$", "cancel": r"del result_ops\[index\]",
        "third": r"result_ops\[index\] = OPERATOR_MAP"})
    reach.watch(S.simplify, "PauliSum.simplify", markers={
        "single": r"terms\.append\(first_term\)", "merge": r"terms\.append\(term_list\[0\]\.copy"})
    reach.watch(getattr(T, "__mul__", None), "PauliTerm.__mul__")
    reach.watch(getattr(S, "__mul__", None), "PauliSum.__mul__")
    reach.watch(getattr(T, "__eq__", None), "PauliTerm.__eq__")
    reach.watch(getattr(S, "__eq__", None), "PauliSum.__eq__")
    reach.watch(getattr(T, "__hash__", None), "PauliTerm.__hash__")
    for cls, cname in ((T, "PauliTerm"), (S, "PauliSum")):
        for attr, sym, refl in (("__add__", "+", False), ("__radd__", "+", True), ("__sub__", "-", False),
                                ("__rsub__", "-", True), ("__mul__", "*", False), ("__rmul__", "*", True),
                                ("__truediv__", "/", False)):
            name = f"{cname}.{attr}"
            mon.hook_method(cls, attr, post=_mk_binary(name, sym, refl), name=name)
        mon.hook_method(cls, "__pow__", post=_mk_pow(f"{cname}.__pow__"), name=f"{cname}.__pow__")
        mon.hook_method(cls, "__eq__", post=_mk_eq(f"{cname}.__eq__"), name=f"{cname}.__eq__")
    mon.hook_method(S, "simplify", post=_post_simplify, pre=_pre_simplify, name="PauliSum.simplify")
    mon.hook_method(T, "__hash__", post=_post_hash, name="PauliTerm.__hash__")


# ----------------------------------------------------------------------------- cases
def _nontrivial(*specs):
    """Y involved, two different letters on one qubit, or a sum with >= 2 terms"""
    terms = []
    for s in specs:
        if isinstance(s, list):
            if len(s) >= 2:
                return True
            terms.extend(s)
        elif isinstance(s, tuple):
            terms.append(s)
    if G.has_y(terms):
        return True
    for i in range(len(terms)):
        for j in range(i + 1, len(terms)):
            if G.anticommuting_pair(terms[i][0], terms[j][0]):
                return True
    return False


def _build(spec):
    T, S = _lib()
    if isinstance(spec, list):
        return G.build_sum(T, S, spec)
    if isinstance(spec, tuple):
        return G.build_term(T, spec)
    return spec


def _operand_spec(rng, pool, regime, kind=None, max_terms=5):
    kind = kind or rng.choice(["term", "sum", "sum"])
    if kind == "term":
        return G.rand_term(rng, pool, regime, yheavy=rng.random() < 0.3, zero=rng.random() < 0.05)
    return G.rand_sum(rng, pool, regime, nterms=rng.randint(0, max_terms), yheavy=rng.random() < 0.3)


def _eq_both(ctx, a, b):
    r1 = a == b
    r2 = b == a
    ctx.check("eq-symmetric", bool(r1) == bool(r2), lambda: f"({a!r} == {b!r}) is {r1} but the reverse is {r2}")
    return bool(r1)


def run_case(ctx):
    T, S = _lib()
    rng = ctx.rng
    cls = ctx.cls

    if cls == "pairs_exh":
        n = 2 if ctx.quick else 3
        strings = G.all_strings(n)
        if ctx.index >= len(strings) ** 2:
            raise Exhausted()
        P, Q = strings[ctx.index // len(strings)], strings[ctx.index % len(strings)]
        if rng.random() < 0.5:
            pos = sorted(rng.sample(range(G.MAX_INDEX + 1), n))
            P, Q = G.relabel(P, pos), G.relabel(Q, pos)
        pairs = [(G.dyadic(rng), G.dyadic(rng)), (G.generic(rng, "complex"), G.generic(rng))]
        ctx.describe(
            "pair " + " ; ".join(f"{G.fmt_term((P, c1))} , {G.fmt_term((Q, c2))}" for c1, c2 in pairs),
            _nontrivial((P, 1), (Q, 1)),
        )
        for c1, c2 in pairs:
            a, b = T(dict(P), c1), T(dict(Q), c2)
            ab, ba = a * b, b * a
            a + b
            a - b
            S([a]) * b
            a * S([b])
            S([a]) * S([b])
            _eq_both(ctx, ab, ba)  # commuting strings: equal; anticommuting: opposite sign
            _eq_both(ctx, S([ab]).simplify(), S([ba]).simplify())
            dp = dict(P)
            if sum(1 for q, o in Q if q in dp and dp[q] != o) % 2 == 0:
                # commuting strings: both orders denote the same term, so they must hash alike
                ctx.check("hash-consistent", hash(ab) == hash(ba), lambda: f"{ab!r} and {ba!r} denote one term but hash differently")
        return

    regime = "dyadic" if rng.random() < 0.6 else "generic"
    pool = G.qubit_pool(rng, k=rng.randint(1, 5))

    if cls == "sums":
        a = _operand_spec(rng, pool, regime)
        b = _operand_spec(rng, pool, regime)
        op = rng.choice(["+", "-", "*", "*", "sum()"])
        if op == "sum()":
            terms = [G.rand_term(rng, pool, regime) for _ in range(rng.randint(1, 4))]
            ctx.describe(f"sums {regime} builtin sum of {G.fmt_sum(terms)} then + {G.fmt(a)}", _nontrivial(terms, a))
            total = sum(_build(t) for t in terms)  # 0 + t1 + t2 ... : __radd__ first
            total + _build(a)
            _build(a) + total
            return
        ctx.describe(f"sums {regime} {G.fmt(a)} {op} {G.fmt(b)}", _nontrivial(a, b))
        x, y = _build(a), _build(b)
        if op == "+":
            r1, r2 = x + y, y + x
            _eq_both(ctx, r1, r2)
        elif op == "-":
            r1, r2 = x - y, y - x
            x - x
        else:
            x * y
            y * x
        return

    if cls == "scalars":
        a = _operand_spec(rng, pool, regime, max_terms=4)
        s = G.scalar(rng, regime, allow_zero=rng.random() < 0.15)
        ctx.describe(f"scalars {regime} operand {G.fmt(a)} scalar {s!r} (all of a+s s+a a-s s-a a*s s*a a/s)", _nontrivial(a))
        x = _build(a)
        x + s
        s + x
        x - s
        s - x
        x * s
        s * x
        try:
            x / s
        except ZeroDivisionError:
            if s != 0:
                raise
        return

    if cls == "powers":
        kind = rng.choice(["term", "sum"])
        p = rng.choice([0, 1, 2, 3, 4, 5, 5, 3, True])
        if ctx.nprng.random() < 0.15:  # (a stream of its own: the other cases of this class stay as they were)
            # larger exponents: single terms on any strings, sums on at most two qubits (<= 16 strings)
            p = rng.choice([9, 12, 16, 21, 32, 40, 64])
            small = G.qubit_pool(rng, k=rng.randint(1, 4) if kind == "term" else rng.randint(1, 2))
            a = _operand_spec(rng, small, regime, kind=kind, max_terms=3)
        else:
            small = G.qubit_pool(rng, k=rng.randint(1, 3 if p >= 4 else 4))
            a = _operand_spec(rng, small, regime, kind=kind, max_terms=3 if p >= 4 else 4)
        bad = rng.choice([-1, 2.5, "2", -3, 1.0]) if rng.random() < 0.12 else None
        ctx.describe(f"powers {regime} ({G.fmt(a)}) ** {p!r}" + (f" and ** {bad!r}" if bad is not None else ""), _nontrivial(a))
        x = _build(a)
        x**p
        if bad is not None:
            try:
                x**bad
            except (ValueError, TypeError):
                pass
        return

    if cls == "simplify":
        mode = rng.choice(["plain", "plain", "tiny"])
        specs = G.rand_sum(rng, pool, regime, nterms=rng.randint(0, 7), yheavy=rng.random() < 0.3)
        if mode == "tiny":
            # around the 1e-8 drop threshold: <=1e-8 may go, 1e-5 and larger must stay
            for _ in range(rng.randint(1, 3)):
                c = rng.choice([1e-9, -5e-9, 3e-9j, 1e-5, -2e-4, 1e-4j, 3e-5 + 2e-5j, 1e-3])
                ops = rng.choice(specs)[0] if specs and rng.random() < 0.3 else G.rand_ops(rng, pool)
                specs.insert(rng.randint(0, len(specs)), (ops, c))
        ctx.describe(f"simplify {regime}/{mode} {G.fmt_sum(specs)}", _nontrivial(specs))
        s = _build(specs)
        r = s.simplify()
        r2 = r.simplify()
        if mode != "tiny":
            _eq_both(ctx, r, r2)
        return

    if cls == "equality":
        return _equality_case(ctx, regime, pool)
    if cls == "magnitudes":
        return _magnitudes_case(ctx, regime, pool)
    if cls == "history":
        return _history_case(ctx, regime, pool)
    if cls == "bigcoef":
        return _bigcoef_case(ctx, pool)
    raise ValueError(cls)


def _distinct_terms(rng, pool, regime, n):
    out, seen = [], set()
    for _ in range(40):
        if len(out) >= n:
            break
        t = G.rand_term(rng, pool, regime, yheavy=rng.random() < 0.3)
        if t[0] not in seen:
            seen.add(t[0])
            out.append(t)
    return out


def _equality_case(ctx, regime, pool):
    T, S = _lib()
    rng = ctx.rng
    variant = rng.choice(["reorder", "split", "route", "noise", "perturb", "swap-op", "drop", "coef-swap",
                          "types", "term-vs-sum", "number", "zeros"])
    base = _distinct_terms(rng, pool, regime, rng.randint(1, 5))
    other = list(base)
    note = ""
    if variant == "reorder":
        rng.shuffle(other)
    elif variant == "split":
        other = []
        for ops, c in base:
            c1 = G.coeff(rng, regime)
            other += [(ops, c1), (ops, c - c1)]
        rng.shuffle(other)
    elif variant == "noise":
        i = rng.randrange(len(other))
        other[i] = (other[i][0], other[i][1] + rng.choice([1e-13, -1e-13, 1e-13j]))
        rng.shuffle(other)
    elif variant == "perturb":
        i = rng.randrange(len(other))
        cmax = max(abs(c) for _, c in base)
        delta = rng.choice([0.125, -0.25, 0.125j, 1.0]) if regime == "dyadic" else rng.choice([0.01, -0.05, 0.02j]) * max(1.0, cmax)
        other[i] = (other[i][0], other[i][1] + delta)
    elif variant == "swap-op":
        i = rng.randrange(len(other))
        ops = list(other[i][0])
        if ops and rng.random() < 0.7:
            j = rng.randrange(len(ops))
            ops[j] = (ops[j][0], rng.choice([o for o in "XYZ" if o != ops[j][1]]))
        else:
            free = [q for q in range(G.MAX_INDEX + 1) if q not in dict(ops)]
            ops = sorted(ops + [(rng.choice(free[:4] + pool), rng.choice("XYZ"))]) if not ops else ops[1:]
            ops = sorted(dict(ops).items())
        other[i] = (tuple(ops), other[i][1])
    elif variant == "drop":
        other.pop(rng.randrange(len(other)))
    elif variant == "coef-swap":
        if len(other) >= 2:
            i, j = rng.sample(range(len(other)), 2)
            other[i], other[j] = (other[i][0], other[j][1]), (other[j][0], other[i][1])
    ctx.describe(f"equality {regime} {variant} {G.fmt_sum(base)} vs {G.fmt_sum(other)}{note}", _nontrivial(base, other))

    if variant == "types":
        # one term written three ways: int / float / complex coefficient, reversed dict order
        ops, _ = base[0]
        k = rng.randint(-3, 3) or 2
        t1 = T(dict(ops), k)
        t2 = T(dict(reversed(ops)), float(k))
        t3 = T(dict(ops), complex(k, 0.0))
        t4 = T(dict(ops), 1) * k
        for u in (t2, t3, t4):
            if _eq_both(ctx, t1, u):
                ctx.check("hash-consistent", hash(t1) == hash(u), lambda: f"{t1!r} == {u!r} but the hashes differ")
        t5 = T(dict(ops), k + 1)
        _eq_both(ctx, t1, t5)
        return
    if variant == "term-vs-sum":
        t = G.build_term(T, base[0])
        _eq_both(ctx, t, S([t.copy()]))
        _eq_both(ctx, t, S([t.copy(t.coefficient * 2)]))
        if len(base) >= 2:
            _eq_both(ctx, t, G.build_sum(T, S, base))
        return
    if variant == "number":
        c = G.scalar(rng, regime, allow_zero=rng.random() < 0.2)
        t = T("I0", c)
        _eq_both(ctx, t, c)
        _eq_both(ctx, S([t]).simplify(), c)
        _eq_both(ctx, G.build_term(T, base[0]), c)
        _eq_both(ctx, t, c + 1)
        d = G.build_term(T, base[0])
        (d - d) == 0  # empty sum against the number zero: recorded, outside the property
        return
    if variant == "zeros":
        t = G.build_term(T, base[0])
        z = [S(), t - t, S([t.copy(0)]).simplify(), t * 0, T(dict(base[-1][0]), 0), T("I0", 0.0)]
        # the zero operator reached by a zero scalar on either side of a SUM that library arithmetic produced (and was
        # therefore simplified once already), simplified again: every one of them is the zero operator
        terms_ = [G.build_term(T, s_) for s_ in base]
        sm = terms_[0] + 0
        for t_ in terms_[1:]:
            sm = sm + t_
        k0 = rng.choice([0, 0.0, 0j, -0.0])
        made = [(k0 * sm).simplify(), (sm * k0).simplify(), (k0 * sm.simplify()).simplify(), (k0 * (sm * 2)).simplify()]
        for x in made:
            # what simplify() returns IS a simplified operator, whatever its term list looks like: it denotes the zero
            # matrix, so it equals the empty sum (both ways round)
            ok = bool(x == S()) and bool(S() == x)
            ctx.check("simplified-zero-equals-empty-sum", ok,
                      lambda: f"({k0!r} * {G.fmt_sum(base)}).simplify() = {x!r} does not compare equal to the empty sum")
        z += made
        for i in range(len(z)):
            for j in range(i + 1, len(z)):
                _eq_both(ctx, z[i], z[j])
        _eq_both(ctx, S(), t)
        return

    A = G.build_sum(T, S, base).simplify()
    if variant == "route":
        # the same operator reached through arithmetic instead of the constructor
        terms = [G.build_term(T, s) for s in base]
        rng.shuffle(terms)
        B = terms[0] + 0
        for t in terms[1:]:
            B = B + t if rng.random() < 0.5 else t + B
        C = (A * 2) / 2 if regime == "dyadic" else A * 1
        _eq_both(ctx, A, B)
        _eq_both(ctx, A, C)
        _eq_both(ctx, B - A, S())
        return
    B = G.build_sum(T, S, other).simplify()
    same = _eq_both(ctx, A, B)
    if len(base) == 1 and len(B.terms) == 1:
        ta, tb = A.terms[0], B.terms[0]
        if _eq_both(ctx, ta, tb) and variant in ("reorder", "split") and regime == "dyadic":
            ctx.check("hash-consistent", hash(ta) == hash(tb), lambda: f"{ta!r} == {tb!r} but the hashes differ")
    if same and variant == "reorder":
        ctx.mon.note("eq:reordered-sums-equal")


# ----------------------------------------------------------------------------- class: magnitudes
def _distinct_ops(rng, pool, n, taken=()):
    out, seen = [], set(taken)
    for _ in range(40):
        if len(out) >= n:
            break
        ops = G.rand_ops(rng, pool, yheavy=rng.random() < 0.3)
        if ops not in seen:
            seen.add(ops)
            out.append(ops)
    return out


def _mixed_scale_sum(rng, pool, regime, n, taken=()):
    """n terms on distinct strings whose coefficients lie orders of magnitude apart"""
    out = []
    for i, ops in enumerate(_distinct_ops(rng, pool, n, taken)):
        pick = [GM.large, GM.small, GM.coeff][i] if i < 2 else rng.choice([GM.large, GM.small, GM.coeff])
        out.append((ops, pick(rng, regime)))
    rng.shuffle(out)
    return out


def _magnitudes_case(ctx, regime, pool):
    """Behaviour that depends on the SIZE of the coefficients.  Nothing new is demanded: the monitors of
    + - * / simplify judge every call with their usual tolerance (1e-12 * scale, + 1e-8 per term for generic
    floats); this class only feeds them operands whose coefficients are far from 1."""
    T, S = _lib()
    rng = ctx.rng
    mode = rng.choice(["near-cancel", "near-cancel", "mixed-scale", "scalar-scale", "cross"])

    if mode == "near-cancel":
        # like terms c1 + c2 (+ c3) = c, all large, meet -(c - r): what is left is r >> 1e-8
        c, r = GM.cancelling(rng, regime)
        ops = G.rand_ops(rng, pool, yheavy=rng.random() < 0.3)
        plus = [(ops, p) for p in GM.split(rng, regime, c, rng.choice([1, 1, 2, 3]))]
        minus = (ops, -(c - r))
        filler = _mixed_scale_sum(rng, pool, regime, rng.randint(0, 3), taken=[ops]) if rng.random() < 0.7 else []
        route = rng.choice(["simplify", "sum-sub", "sum-add", "term-sub", "term-add", "builtin-sum", "scaled"])
        ctx.describe(
            f"magnitudes {regime} near-cancel/{route} like terms {G.fmt_sum(plus)} against {G.fmt_term(minus)} "
            f"(residual {r!r}) beside {G.fmt_sum(filler)}", True)
        if route == "simplify":
            specs = plus + [minus] + filler
            rng.shuffle(specs)
            s = _build(specs)
            s.simplify().simplify()
        elif route in ("sum-sub", "sum-add", "scaled"):
            k = rng.randint(0, len(filler))
            xs, ys = plus + filler[:k], [minus] + filler[k:]
            rng.shuffle(xs)
            rng.shuffle(ys)
            if route == "sum-add":
                x, y = _build(xs), _build(ys)
                x + y
                y + x
            else:
                # the subtrahend carries +(c - r); shared filler terms cancel exactly
                ys = [(o, -v) if o == ops else (o, v) for o, v in ys] + (filler[:1] if filler and rng.random() < 0.5 else [])
                x, y = _build(xs), _build(ys)
                d = x - y
                y - x
                x + -1 * y
                if route == "scaled":
                    d * rng.choice([200, 0.5, -4, 2j])
        elif route in ("term-sub", "term-add"):
            a = T(dict(ops), c)
            if route == "term-sub":
                b = T(dict(ops), c - r)
                a - b
                b - a
                S([a]) - b
            else:
                b = T(dict(ops), -(c - r))
                a + b
                b + a
                a + S([b])
        else:
            terms = [_build(t) for t in plus + [minus] + filler]
            rng.shuffle(terms)
            sum(terms)
        return

    if mode == "mixed-scale":
        # no like terms at all: a small term beside a huge one is still a term
        a = _mixed_scale_sum(rng, pool, regime, rng.randint(2, 4))
        b = _mixed_scale_sum(rng, pool, regime, rng.randint(1, 3))
        s = G.scalar(rng, regime)
        ctx.describe(f"magnitudes {regime} mixed-scale {G.fmt_sum(a)} with {G.fmt_sum(b)} and scalar {s!r} "
                     f"(simplify, + - * both ways, * scalar, + scalar)", True)
        x, y = _build(a), _build(b)
        x.simplify()
        x + y
        x - y
        y - x
        x * y
        y * x
        x * s
        s * x
        x + s
        t = _build(b[0])
        x + t
        t - x
        t * x
        return

    if mode == "scalar-scale":
        # results of size 1e-6 ... 1e8: nothing may be dropped or rounded away
        lo, hi = (-6, 14) if regime == "dyadic" else (-2.0, 5.0)
        a = [(o, GM.coeff(rng, regime, lo, hi)) for o in _distinct_ops(rng, pool, rng.randint(1, 4))]
        spec = a[0] if len(a) == 1 and rng.random() < 0.6 else a
        s = GM.scalar(rng, regime)
        ctx.describe(f"magnitudes {regime} scalar-scale operand {G.fmt(spec)} scalar {s!r} "
                     f"(a*s s*a a/s a+s s-a (a*s)/s)", _nontrivial(spec))
        x = _build(spec)
        p = x * s
        s * x
        x / s
        x + s
        s - x
        p / s
        return

    # cross: (a U + b V)(c U + d V): the two cross terms a*d and b*c are large and nearly cancel
    U, V = _distinct_ops(rng, pool, 2)
    sigma = -1 if sum(1 for q, o in V if q in dict(U) and dict(U)[q] != o) % 2 else 1
    if regime == "dyadic":
        g = rng.randint(18, 29)  # log2 of |a*d| / |residual|
        e = rng.randint(max(8, g - 12), min(17, g - 2))
        a = 2.0**e
        b = rng.choice([1, -1, 2, 1j, -1j, -2j]) * a
        c = rng.choice([1, -1, 3, 1j, -1j]) * a
        rho = rng.choice([-1, 1]) * 2.0 ** (e - g)  # residual a*rho = 2^(2e-g), rho a multiple of 2^-12
    else:
        u = rng.uniform(1.5, 3.0)
        a = GM.generic_real(rng, u, u)
        b = GM.generic(rng, u, u)
        c = GM.generic(rng, u, u)
        rho = rng.choice([-1, 1]) * 10.0 ** rng.uniform(-6.0, -3.0) * 10.0**u / abs(a)
    d = -sigma * (b * c / a) + rho
    left, right = [(U, a), (V, b)], [(U, c), (V, d)]
    ctx.describe(f"magnitudes {regime} cross {G.fmt_sum(left)} * {G.fmt_sum(right)} (both orders; cross terms leave "
                 f"{a * rho!r})", True)
    x, y = _build(left), _build(right)
    x * y
    y * x
    return


# ----------------------------------------------------------------------------- class: bigcoef
def _log10(v):
    """log10 of |v| for ints of any size, floats and complex numbers (0 -> -inf)"""
    if isinstance(v, complex):
        v = max(abs(v.real), abs(v.imag))
    v = abs(v)
    if v == 0:
        return -math.inf
    if isinstance(v, int):
        b = v.bit_length()
        return (b - 60) * math.log10(2) + math.log10(v >> (b - 60)) if b > 900 else math.log10(v)
    return math.log10(v)


def _bigcoef_case(ctx, pool):
    global _EXACT_ALL
    _EXACT_ALL = True
    try:
        _bigcoef_body(ctx, pool)
    finally:
        _EXACT_ALL = False


def _int_sum(rng, pool, n, around, taken=(), p_int=0.8):
    """n terms on distinct strings whose coefficients are integers near +-around"""
    return [(ops, GB.spell(rng, GB.sign(rng) * max(1, GB.near(rng, around)), p_int))
            for ops in _distinct_ops(rng, pool, n, taken)]


def _bigcoef_body(ctx, pool):
    """Exact integer (and integer-valued float / complex, a few non-integral float) coefficients whose powers,
    products and sums leave the range of int32, of exactly representable doubles, of int64 / uint64, of float32,
    and approach the end of the double range, while every operand is far inside.  Nothing new is demanded: the
    monitors of + - * / ** simplify == judge every call; for these magnitudes they use the exact reference."""
    T, S = _lib()
    rng = ctx.rng
    mode = rng.choice(["term-pow", "term-pow", "sum-pow", "product", "product", "like-sum", "like-sum", "scalar",
                       "equality"])

    if mode == "term-pow":
        c, m, n = GB.power_base(rng)
        ops = G.rand_ops(rng, pool, yheavy=rng.random() < 0.3)
        route = rng.choice(["plain", "plain", "one-term-sum", "repeated", "chain"])
        size = n * math.log10(m) if m > 0 else 0.0
        ctx.describe(f"bigcoef term-pow/{route} ({G.fmt_term((ops, c))}) ** {n} (10^{size:.1f})", size >= 9.3)
        x = T(dict(ops), c)
        r = x**n
        if route == "one-term-sum":
            rs = S([x]) ** n
            if size < 120:
                _eq_both(ctx, r, rs)
        elif route == "repeated" and n <= 48:
            p = x
            for _ in range(n - 1):
                p = p * x if rng.random() < 0.8 else x * p
            if size < 120:
                _eq_both(ctx, r, p)
        elif route == "chain":
            a = rng.randint(0, n)
            (x**a) * (x ** (n - a))
        if isinstance(c, int) and size < 120:
            twin = T(dict(ops) if n % 2 else {}, c**n)
            if _eq_both(ctx, r, twin) and abs(c) ** n < 2**53:
                ctx.check("hash-consistent", hash(r) == hash(twin), lambda: f"{r!r} == {twin!r} but the hashes differ")
        return

    if mode == "sum-pow":
        small = sorted(rng.sample(pool, min(len(pool), rng.choice([1, 2, 2]))))
        kind = rng.choice(["int", "int", "int", "gauss", "float"])
        specs = []
        for ops in _distinct_ops(rng, small, rng.randint(2, 3)):
            if kind == "int":
                c = GB.spell(rng, GB.small_int(rng, 9), 0.85)
            elif kind == "gauss":
                c = GB.gaussian(rng, 1, 4)
            else:
                c = rng.choice([1.5, -0.5, 2.25, 0.75, -3.5, 0.1, 1.7])
            specs.append((ops, c))
        s = sum(abs(complex(c).real) + abs(complex(c).imag) for _, c in specs)
        n = rng.choice([9, 10, 12, 16, 17, 24, 31, 32, 33, 48, 63, 64, 65, 100])
        while n > 9 and n * math.log10(max(s, 1.1)) > 250:
            n = n * 2 // 3
        route = rng.choice(["plain", "plain", "repeated"])
        ctx.describe(f"bigcoef sum-pow/{route} ({G.fmt_sum(specs)}) ** {n}", len(specs) >= 2)
        x = _build(specs)
        x**n
        if route == "repeated":
            p = x
            for _ in range(min(n, 24) - 1):
                p = p * x
        return

    if mode == "product":
        th = GB.boundary(rng)
        a, b = GB.factor_pair(rng, th)
        shape = rng.choice(["tt", "tt", "tt", "ts", "st", "ss", "square"])
        p_int = rng.choice([1.0, 1.0, 0.8, 0.5])
        if shape == "square":
            k = rng.choice([2, 2, 3])
            root = max(2, GB.iroot(th, k) + rng.choice([-1, 0, 1, 1, 2]))
            left = _int_sum(rng, pool, 1 if rng.random() < 0.6 else 2, root, p_int=p_int)
            right = left
            nfac = k
        else:
            left = _int_sum(rng, pool, 1 if shape[0] == "t" else rng.randint(1, 3), a, p_int=p_int)
            right = _int_sum(rng, pool, 1 if shape[1] == "t" else rng.randint(1, 3), b, p_int=p_int)
            nfac = 2
        lspec = left[0] if (shape[0] == "t" or shape == "square") and len(left) == 1 else left
        rspec = right[0] if (shape[1:2] == "t" or shape == "square") and len(right) == 1 else right
        third = (G.rand_ops(rng, pool), GB.small_int(rng, 9)) if rng.random() < 0.3 else None
        ctx.describe(f"bigcoef product/{shape} {G.fmt(lspec)} * {G.fmt(rspec)} ({nfac} factors, both orders)"
                     + (f" then * {G.fmt_term(third)}" if third else "") + f" around 10^{_log10(th):.1f}", True)
        x, y = _build(lspec), _build(rspec)
        xy = x * y
        yx = y * x
        if nfac == 3:
            xy * x
            x * xy
        if third is not None:
            z = _build(third)
            xy * z
            z * yx
            x * (y * z)
        return

    if mode == "like-sum":
        th = GB.boundary(rng)
        variant = rng.choice(["split", "split", "split", "edge", "mixed"])
        sgn = GB.sign(rng)
        if variant == "split":
            parts = GB.split(rng, sgn * GB.near(rng, th), rng.choice([2, 2, 3, 4]))
        elif variant == "edge":
            parts = [sgn * (th - rng.choice([1, 1, 2])), sgn * rng.choice([1, 1, 2, 3])]
        else:
            big = GB.near(rng, 2 * th)
            parts = [sgn * big, -sgn * GB.near(rng, th // rng.choice([2, 3, 4]))]  # comes back down across th
        p_int = rng.choice([1.0, 1.0, 0.85])
        ops = G.rand_ops(rng, pool, yheavy=rng.random() < 0.3)
        like = [(ops, GB.spell(rng, p, p_int)) for p in parts]
        filler = _int_sum(rng, pool, rng.randint(0, 2), rng.choice([3, 1000, th // 3, th * 5]), taken=[ops]) \
            if rng.random() < 0.6 else []
        route = rng.choice(["simplify", "sum-add", "sum-sub", "term-add", "term-sub", "builtin-sum", "scalar"])
        ctx.describe(f"bigcoef like-sum/{variant}/{route} like terms {G.fmt_sum(like)} beside {G.fmt_sum(filler)} "
                     f"around 10^{_log10(th):.1f}", True)
        if route == "simplify":
            specs = like + filler
            rng.shuffle(specs)
            _build(specs).simplify().simplify()
        elif route in ("sum-add", "sum-sub"):
            k = rng.randint(1, len(like) - 1)
            xs, ys = like[:k] + filler[:1], like[k:] + filler[1:]
            x = _build(xs)
            if route == "sum-add":
                y = _build(ys)
                x + y
                y + x
            else:
                y = _build([(o, -v) if o == ops else (o, v) for o, v in ys])
                x - y
                x + -1 * y
        elif route in ("term-add", "term-sub"):
            acc = _build(like[0])
            for o, v in like[1:]:
                acc = (acc + T(dict(o), v)) if route == "term-add" else (acc - T(dict(o), -v))
        elif route == "builtin-sum":
            terms = [_build(t) for t in like + filler]
            rng.shuffle(terms)
            sum(terms)
        else:
            # the like terms are constants: one sits in the operator, the others arrive as plain numbers
            x = _build([((), like[0][1])] + filler)
            for _, v in like[1:]:
                x = x + v if rng.random() < 0.5 else v + x
            y = _build([((), like[0][1])] + filler)
            y - (-like[1][1])
            (-like[1][1]) - y
        return

    if mode == "scalar":
        th = GB.boundary(rng)
        a, b = GB.factor_pair(rng, th)
        spec = _int_sum(rng, pool, rng.choice([1, 1, 2, 3]), a, p_int=0.9)
        spec = spec[0] if len(spec) == 1 and rng.random() < 0.7 else spec
        kind = rng.choice(["int", "int", "int", "float", "complex", "gauss"])
        sb = GB.sign(rng) * b
        s = sb if kind == "int" else float(sb) if kind == "float" else complex(sb, 0.0) if kind == "complex" \
            else complex(sb, GB.sign(rng) * GB.near(rng, b))
        ctx.describe(f"bigcoef scalar operand {G.fmt(spec)} scalar {s!r} (a*s s*a (a*s)/s a/s a+s s-a) "
                     f"around 10^{_log10(th):.1f}", True)
        x = _build(spec)
        p = x * s
        s * x
        p / s
        x / s
        x + s
        s - x
        if isinstance(s, int):
            # the exact product as operand: divided by the scalar it is the first operand again
            terms = spec if isinstance(spec, list) else [spec]
            if all(isinstance(c, int) for _, c in terms):
                _build([(o, c * s) for o, c in terms]) / s
        return

    # equality: the same large integer reached by different routes, and integers that differ by a power of two
    th = GB.boundary(rng, below=10**100)
    a, b = GB.factor_pair(rng, th)
    a, b = GB.sign(rng) * a, b
    N = a * b
    ops = G.rand_ops(rng, pool, yheavy=rng.random() < 0.3)
    shifts = [d for d in (2**31, 2**32, 2**63, 2**64, -(2**63), -(2**64)) if abs(d) * 1000 >= abs(N)]
    N2 = rng.choice([N - d for d in shifts] + [2 * N, -N, N + N // 3])
    ctx.describe(f"bigcoef equality {G.fmt_term((ops, N))} = {a} * {b} by routes; against {N2}", True)
    t0 = T(dict(ops), N)
    t1 = T(dict(ops), a) * T({}, b)
    t2 = T(dict(ops), b) * a
    if _eq_both(ctx, t0, t1):
        ctx.check("hash-consistent", hash(t0) == hash(t1), lambda: f"{t0!r} == {t1!r} but the hashes differ")
    _eq_both(ctx, t0, t2)
    _eq_both(ctx, S([t0]), S([t1]))
    if float(N) == N:
        t3 = T(dict(ops), float(N))
        if _eq_both(ctx, t0, t3):
            ctx.check("hash-consistent", hash(t0) == hash(t3), lambda: f"{t0!r} == {t3!r} but the hashes differ")
        _eq_both(ctx, S([t0]), S([T(dict(ops), complex(N, 0.0))]))
    other = T(dict(ops), N2)
    _eq_both(ctx, t0, other)
    _eq_both(ctx, S([t0]), S([other]))
    _eq_both(ctx, S([t0, T({99: "Z"}, 1)]).simplify(), S([T({99: "Z"}, 1), other]).simplify())
    return


# ----------------------------------------------------------------------------- class: history
_PRIMERS = ["hash", "set", "dict", "eq-fresh", "eq-other", "simplify", "repr", "props", "circuit", "arith", "hash-sum", "copy"]
_DERIVE = ["a*k", "k*a", "a/k", "a+a", "a-b", "k*a-a", "a+b", "b+a", "a*b", "a**2", "a**3", "a+k", "k-a", "a*1",
           "(a*k)/k", "a-a", "simplify", "copy", "-a",
           "aug:h=a+b;h+=a", "aug:h=a+b;h-=b", "aug:h=a+b;h*=k", "aug:h=simplify(a);h+=b", "aug:h=sum-of-a's-terms;h+=a",
           "aug:h=a+b;h+=a;h+=b"]


def _augmented(ctx, how, a, b, k):
    """an accumulator h that is a result of its own (a sum, a simplified copy, a sum over the same term objects) and
    is then updated with an augmented assignment: h has to denote the accumulated matrix (judged here from the term
    lists read beforehand - a newly defined in-place operator has no monitor), and the operands a, b that went into
    it, whose term objects h may share, still denote what they did (the operand-unchanged check at the end)"""
    T, S = _lib()
    ta, tb = D.term_list(a), D.term_list(b)
    if ta is None or tb is None:
        return None
    if how == "aug:h=a+b;h+=a":
        h = a + b
        h += a
        want = [(ta, 2), (tb, 1)]
    elif how == "aug:h=a+b;h-=b":
        h = a + b
        h -= b
        want = [(ta, 1)]
    elif how == "aug:h=a+b;h*=k":
        h = a + b
        h *= k
        want = [(ta, k), (tb, k)]
    elif how == "aug:h=simplify(a);h+=b":
        h = a.simplify() if isinstance(a, S) else S([a]).simplify()
        h += b
        want = [(ta, 1), (tb, 1)]
    elif how == "aug:h=sum-of-a's-terms;h+=a":
        h = S(list(a.terms))
        h += a
        want = [(ta, 2)]
    else:
        h = a + b
        h += a
        h += b
        want = [(ta, 2), (tb, 2)]
    exp = [(ops, complex(c) * w) for tl, w in want for ops, c in tl]
    th = D.term_list(h)
    qmap, n = D.compress(exp, th or [])
    if th is None or n > MAXN:
        return h
    diff = _maxabs(D.dense(th, n, qmap) - D.dense(exp, n, qmap))
    scale = max([1.0] + [abs(c) for _, c in exp])
    ctx.check("augmented-assignment", diff <= 1e-8 * (len(exp) + 1) * scale,
              lambda: f"{how} with a = {ta!r}, b = {tb!r}, k = {k!r}: the accumulator reads {th!r}, "
                      f"its matrix is off by {diff!r}")
    return h


def _fresh(rng, obj, tl=None):
    """an operator with the same terms as `obj`, built from scratch through the constructors, terms shuffled"""
    T, S = _lib()
    tl = list(D.term_list(obj) if tl is None else tl)
    if isinstance(obj, T):
        return T(dict(tl[0][0]), tl[0][1])
    rng.shuffle(tl)
    return S([T(dict(reversed(ops)), c) for ops, c in tl])


def _prime(ctx, rng, how, x, others):
    T, S = _lib()
    if how == "hash":
        for t in x.terms:
            hash(t)
    elif how == "set":
        len(set(x.terms))
    elif how == "dict":
        seen = {t: i for i, t in enumerate(x.terms)}
        for t in x.terms:
            seen[t]
    elif how == "eq-fresh":
        _eq_both(ctx, x, _fresh(rng, x))
    elif how == "eq-other":
        _eq_both(ctx, x, rng.choice(others))
    elif how == "simplify":
        S(list(x.terms)).simplify() if isinstance(x, T) else x.simplify()
    elif how == "repr":
        repr(x)
        str(x)
    elif how == "props":
        x.qubits, x.n_qubits, x.is_ising, x.is_constant, len(x)
        if isinstance(x, S):
            x.constant_term
    elif how == "circuit":
        x.circuit if isinstance(x, T) else x.circuits
    elif how == "arith":
        x * 3
        x + x
        x**2
        2 - x
    elif how == "hash-sum":
        hash(x)
    elif how == "copy":
        for t in x.terms:
            hash(t.copy())
            t.copy(new_coefficient=1)


def _derive(rng, how, a, b, k):
    T, S = _lib()
    if how == "a*k":
        return a * k
    if how == "k*a":
        return k * a
    if how == "a/k":
        return a / k
    if how == "a+a":
        return a + a
    if how == "a-b":
        return a - b
    if how == "k*a-a":
        return k * a - a
    if how == "a+b":
        return a + b
    if how == "b+a":
        return b + a
    if how == "a*b":
        return a * b
    if how == "a**2":
        return a**2
    if how == "a**3":
        return a**3
    if how == "a+k":
        return a + k
    if how == "k-a":
        return k - a
    if how == "a*1":
        return a * 1
    if how == "(a*k)/k":
        return (a * k) / k
    if how == "a-a":
        return a - a
    if how == "simplify":
        return a.simplify() if isinstance(a, S) else S([a]).simplify()
    if how == "copy":
        return a.copy(new_coefficient=k) if isinstance(a, T) else S([t.copy() for t in a.terms])
    if how == "-a":
        return -1 * a
    raise ValueError(how)


def _dense_of(tl, qmap, n):
    return D.dense(tl, n, qmap)


def _history_case(ctx, regime, pool):
    """State kept inside the objects (cached hashes, cached circuits / properties, shared dictionaries or term
    lists): operands are used first and combined afterwards, results are used as operands again."""
    T, S = _lib()
    rng = ctx.rng
    small = pool[:3] if len(pool) > 3 else pool
    nops = rng.randint(1, 3)
    specs = []
    for _ in range(nops):
        if rng.random() < 0.4:
            specs.append(_distinct_terms(rng, small, regime, 1)[0])
        else:
            specs.append(_distinct_terms(rng, small, regime, rng.randint(1, 4)))
    # a further operand that is tied to one of the others: it shares that operand's term objects / term list
    # (state kept in a shared object), or is a near-identical twin - same strings, one coefficient off by less
    # than the 1e-6 hash resolution, by 1e-3 or by 1/8 - that goes through the same derivations (a table keyed
    # by something coarser than the value hands the twin the other's result)
    extra = None
    r = rng.random()
    if r < 0.2:
        extra = (rng.choice(["same-list", "same-terms", "term-of"]), rng.randrange(nops), None)
    elif r < 0.45:
        extra = ("twin", rng.randrange(nops), rng.choice([4e-7, -2.5e-7, 3e-7j, 1e-3, 0.125, -0.125j]))
    if extra is not None:
        kind, src, delta = extra
        base = specs[src] if isinstance(specs[src], list) else [specs[src]]
        if kind == "twin":
            m = rng.randrange(len(base))
            tw = [(o, c + delta) if n == m else (o, c) for n, (o, c) in enumerate(base)]
            specs.append(tw if isinstance(specs[src], list) else tw[0])
        elif kind == "same-list":
            specs.append(list(base))
        elif kind == "same-terms":
            specs.append(list(reversed(base)))
        else:
            specs.append(base[0])
    primers = [(rng.randrange(len(specs)), rng.choice(_PRIMERS)) for _ in range(rng.randint(1, 3))]
    steps = []
    for _ in range(rng.randint(2, 3)):
        how = rng.choice(_DERIVE)
        steps.append((how, rng.randrange(8), rng.randrange(8), G.scalar(rng, regime), rng.random() < 0.5,
                      rng.choice(_PRIMERS) if rng.random() < 0.3 else None))
    ctx.describe(
        f"history {regime} operands " + " ; ".join(G.fmt(s) for s in specs)
        + (f" (last one: {extra[0]} of #{extra[1]})" if extra else "")
        + " | used: " + ",".join(f"{h}(#{i})" for i, h in primers)
        + " | then: " + ",".join(f"{h}[{i},{j};k={k!r}{';keep' if keep else ''}{';' + p if p else ''}]" for h, i, j, k, keep, p in steps),
        _nontrivial(*specs) or len(specs) > 1,
    )
    objs = [_build(s) for s in specs[:nops]]
    twin_of = None
    if extra is not None:
        kind, src, _ = extra
        o = objs[src]
        if kind == "twin":
            objs.append(_build(specs[-1]))
            twin_of = o
        elif kind == "same-list":
            objs.append(S(o.terms) if isinstance(o, S) else S([o]))
        elif kind == "same-terms":
            objs.append(S(list(reversed(o.terms))))
        else:
            objs.append(o.terms[0])
    before = [D.term_list(o) for o in objs]
    for i, how in primers:
        _prime(ctx, rng, how, objs[i], objs)

    live = list(objs)
    for how, i, j, k, keep, primer in steps:
        a, b = live[i % len(live)], live[j % len(live)]
        if twin_of is not None and (a is twin_of or b is twin_of):
            # the same derivation on the near-identical twin first (judged by the monitors)
            (_augmented if how.startswith("aug:") else _derive)(
                *((ctx,) if how.startswith("aug:") else (rng,)), how, objs[-1] if a is twin_of else a, objs[-1] if b is twin_of else b, k)
        res = _augmented(ctx, how, a, b, k) if how.startswith("aug:") else _derive(rng, how, a, b, k)
        tl = D.term_list(res) if res is not None else None
        if tl is None:
            continue
        # the result against an operator that was never part of this history (the == monitor decides by matrices)
        fresh = _fresh(rng, res, tl)
        same = _eq_both(ctx, res, fresh)
        if same and len(tl) <= 6:
            want = {tuple(ops): c for ops, c in tl}
            for t in res.terms:
                key = tuple(sorted((int(q), str(o)) for q, o in t.operations))
                twin = T(dict(key), want.get(key, t.coefficient))
                ctx.check("hash-consistent", hash(t) == hash(twin),
                          lambda: f"{t!r} (from {how} in a history) and the freshly built {twin!r} are equal but hash differently")
        if tl:
            # ... and against one that differs in one coefficient or one letter
            other = list(tl)
            m = rng.randrange(len(other))
            cmax = max(abs(c) for _, c in other)
            if rng.random() < 0.6 or not other[m][0]:
                other[m] = (other[m][0], other[m][1] + rng.choice([0.125, -0.25, 0.125j]) * max(1.0, cmax))
            else:
                ops = list(other[m][0])
                n = rng.randrange(len(ops))
                ops[n] = (ops[n][0], rng.choice([o for o in "XYZ" if o != ops[n][1]]))
                if any(tuple(ops) == tuple(o) for o, _ in other):
                    ops = None
                other[m] = (ops, other[m][1]) if ops is not None else (other[m][0], other[m][1] + max(1.0, cmax))
            wrong = _fresh(rng, res, other)
            (res == wrong) if rng.random() < 0.5 else (wrong == res)
        if primer:
            _prime(ctx, rng, primer, res, live)
        if keep:
            live.append(res)

    for spec, o, tl0 in zip(specs, objs, before):
        tl1 = D.term_list(o)
        want = [(sorted(ops), complex(c)) for ops, c in (spec if isinstance(spec, list) else [spec])]
        qmap, n = D.compress(want, tl0 or [], tl1 or [])
        ok = tl0 is not None and tl1 is not None and n <= MAXN
        if ok:
            M0 = _dense_of(want, qmap, n)
            ok = _maxabs(_dense_of(tl0, qmap, n) - M0) == 0 and _maxabs(_dense_of(tl1, qmap, n) - M0) == 0
        ctx.check("operand-unchanged", ok,
                  lambda: f"operand built as {G.fmt(spec)} reads {tl0!r} after construction and {tl1!r} after the history")
