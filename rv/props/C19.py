"""C19 - translating symbolic expressions preserves their value."""
import random
import zlib
from fractions import Fraction

import mpmath

ID = "C19"
LEVEL = "exploration"
TECHNIQUE = (
    "runtime monitoring: post-condition oracles on the hooked converters (value of the input expression vs "
    "value of the produced tree under an independent 40-digit interpreter, at several symbol assignments) and "
    "on the hooked sort keys (independent tokeniser/comparator); expressions over symbols and integers are also "
    "valued with exact rational arithmetic at integer assignments (no tolerance, no magnitude limit)"
)
LEVEL_NOTE = (
    "trusted: mpmath arithmetic at 40 digits and a ~150-line interpreter of sympy trees / neutral trees; "
    "relative tolerance 1e-9; assignments at which the expression is undefined, overflows or is "
    "ill-conditioned in double precision give no verdict"
)
RULE = (
    "seeded generator by input class (special-case shapes in every operand order with random operands / random "
    "trees to depth 6 quick, 8 thorough / trees built with evaluate=False to depth 5 / symbol-free numeric trees / "
    "unsupported constructs alone and embedded / tuples / symbol-name families for the sort keys incl. several "
    "fixed-names factories over the same names in one case / histories: a base expression and 1-3 expressions that "
    "differ from it in one symbol, one number (incl. Python-equal ones: 2 vs 2.0, hash(-1)==hash(-2)), the order of "
    "two symbols, one node on top, or a symbol that prints like it; their trees - also equal trees that are distinct "
    "objects - are translated in random order with 1-3 other dialects (numeric evaluation at fixed symbol values, "
    "printer, variants of the sympy dialect that share two of its three parts, with the same / one more / one fewer "
    "function name) and with the sympy dialect, each at least once after other translations / integers: trees over "
    "symbols and integers (+, -, *, integer and symbolic powers, division by symbolic denominators; evaluated and "
    "evaluate=False; alone, as a tuple, or below an inexact node) whose integers lie around and beyond 2**31, 2**53, "
    "2**63, 2**64, 2**128, 1e308 (2**k+-d, 10**k+d, 3**k, random odd n-bit)); leaves: symbols "
    "(names with digit groups, names shadowing sympy constants, with assumptions), integers incl. 10**20, 2**53+1, "
    "2**64+1, floats, rationals, I. Non-trivial: >=6 nodes, >=1 symbol and a subtraction/division/reciprocal/half-power shape "
    "(trees); an unsupported node below the root (unsupported); >=3 names whose integers differ in digit count "
    "(keys; an embedded integer >= 2**53 comes with a neighbour at distance 1-2); an integer that is not exactly a "
    "double and >=1 symbol (integers). Class symbolforms: one name in several of the forms sympy hands symbols out in "
    "(Symbol, Dummy, Wild, with a leading / trailing underscore, with assumptions, numbered_symbols, the replacement "
    "symbols of cse, anonymous Dummy, odd but legal names) inside one expression (special shapes, linear / product / "
    "mixed combinations, random trees with their symbols replaced), also as a tuple of its symbols and itself; one "
    "symbol in twelve of every other class takes such a form; non-trivial: >= 2 symbols that print differently and "
    "share their .name. Class manyargs: one Add / Mul node with 17 .. 129 direct operands (counts at, just below and "
    "just above powers of two), each operand its own symbol with a small coefficient, also as a sum of products and a "
    "product of sums. distinct = distinct canonical case strings"
)
ASSUMPTIONS = [
    "symbols are identified by their PRINTED name (str): the neutral tree and every dialect key symbols by that "
    "string, so symbols that print differently (x, Dummy('x') = _x, Wild('x') = x_) take independent values in every "
    "assignment and must come back independent; symbols that print alike (Symbol('x') with and without assumptions, "
    "Symbol('_x') and Dummy('x')) cannot be told apart by a text-keyed form and share one value",
    "value comparison at 5 real assignments per case (positive, negative, small mixed, large mixed, moderate mixed), "
    "relative 1e-9 plus 1e-25 x the largest intermediate magnitude; rationals and floats of the input are rounded to "
    "double first (the accepted loss: rationals become floats)",
    "an assignment gives no verdict when the reference evaluation is undefined there (division by zero, |exponent| "
    "beyond 1e5, intermediate beyond 1e150) or moves by more than 1e-11 under 1e-15 relative noise on every "
    "intermediate result (ill-conditioned in double precision / on a branch cut)",
    "supported node types: Symbol, Integer, Float, Rational, ImaginaryUnit, Add, Mul, Pow, sin, cos, tan, exp, judged "
    "on the tree sympy produced; a tree with another node type may be refused at either stage; if it is translated "
    "anyway it is a violation only when the value differs (infinities/NaN are outside the comparison; an undefined "
    "function named like a dialect entry, e.g. Function('sin')(x), has no value: counted, no verdict)",
    "symbols declared positive get positive values (sympy simplifies under that assumption, e.g. sqrt(-p) -> I*sqrt(p)); "
    "a value computed with complex arithmetic that lands on the negative real axis has no usable fractional power / "
    "logarithm (Python complex numbers carry signed zeros): such assignments give no verdict",
    "an unevaluated tree whose nodes are all supported but whose evaluated form (doit) contains an unsupported node "
    "(1/exp(-1) -> E) may be refused: the library negates sub-trees with `expr * (-1)`, which makes sympy evaluate them",
    "a nested power (b**e)**w with non-integer w gives no verdict at an assignment where it differs from b**(e*w): "
    "sympy 1.9 merges such exponents on its own when it rebuilds the expression (sqrt(z**2.0) -> z**1.0 for complex z)",
    "an exception whose class is defined by sympy (e.g. polys' GeneratorsNeeded raised while sympy multiplies an "
    "unevaluated radical tree by -1; str() of the same tree fails too) is the environment, not a refusal: no verdict",
    "a supported tree that is undefined at every assignment (e.g. a literal division by zero built with "
    "evaluate=False) may be refused",
    "exact values: an input over Symbol, Integer, Add, Mul, Pow (neutral tree: int, Symbol, add/mul/sub/div/pow) whose "
    "exponents take integer values has an exact rational value at integer symbol values (3 assignments: small "
    "positive, small negative, two-digit mixed); what a translation makes of it must have exactly that value. Outside "
    "this class (no exact verdict): any Float / non-integer Rational / I leaf or function in the input; a symbol-free "
    "division or negative power (Python or sympy evaluates it in floating point / to a rational that becomes a float); "
    "an input x + (-1)*y whose evaluated negation `y_term * (-1)` contains such a node (the library converts the "
    "subtrahend from that product; on evaluate=False trees sympy then produces rationals, 1/(3*z) -> Rational(1, 3)/z); "
    "a result with a float that has a fractional part (what a rational became); powers beyond 200000 bits. A float "
    "with an integer value in a result counts with its exact value (2.0 for 2 is the same number, 2.0**53 for 2**53+1 "
    "is not)",
    "an integer-only input that has an exact value may not be refused, however large the integer (10**400)",
    "histories: only what the sympy dialect returns is judged (against the sympy expression the tree was made from "
    "and, by the hook, against the tree); translations with any other dialect are history, their results and "
    "exceptions are not judged",
    "sort keys: only pairs of names with the same non-digit skeleton are judged (the property speaks about the "
    "embedded integers); natural: integer tuples compared lexicographically, revlex: reversed tuples",
]
DECIDING = [
    "expression_from_sympy", "translate_expression", "translate_tuple", "natural_key", "natural_key_revlex",
    "roundtrip-value", "supported-not-refused", "unsupported-refused", "tuple-roundtrip", "key-sort",
    "history-value", "exact-integer-value",
]
BUDGET = {"quick": (4, 38, 900), "thorough": (16, 200, 10000)}
MIN_EVALS = {"quick": 400, "thorough": 2000}
CASE_TIMEOUT = {"quick": 10, "thorough": 20}

MP = mpmath.ctx_mp.MPContext()
MP.dps = 40
TOL = 1e-9
N_ASSIGN = 5

_SALT = 0
_POS = set()  # names of the symbols the current case declares positive
_KEYS = {"natural_key": [], "natural_key_revlex": []}
_LIB = {}


_PNAMES = {}


def _pname(sym):
    """the name a sympy symbol is known by outside sympy: its PRINTED form (a Dummy("x") prints as _x, a Wild("x") as
    x_, an anonymous Dummy as _Dummy_<n>).  The neutral tree and every dialect identify symbols by that string, so two
    symbols that print differently are different symbols and take independent values; two that print alike (Symbol("x")
    with and without assumptions, Symbol("_x") and Dummy("x")) cannot be told apart by any text-keyed form and share
    one value"""
    hit = _PNAMES.get(sym)
    if hit is None:
        hit = _PNAMES[sym] = str(sym)
        if len(_PNAMES) > 20000:
            _PNAMES.clear()
    return hit


def classes(tier):
    return ["special", "random", "unevaluated", "numeric", "unsupported", "tuple", "keys", "history", "integers",
            "symbolforms", "manyargs"]


# ============================================================================ reference interpreter
class Skip(Exception):
    """the expression has no usable value at this assignment"""


class Unknown(Exception):
    """node outside the interpreter"""


class Undefined(Unknown):
    """application of an undefined function"""


class St:
    def __init__(self, noisy=None, round_leaves=False):
        self.scale = 0.0
        self.noisy = noisy  # random.Random or None
        self.round_leaves = round_leaves


def _fin(st, v, leaf=False):
    """range check, scale tracking and (conditioning runs only) 1e-15 relative noise on the result of an
    operation; leaves and exactly integer results carry no rounding error in double arithmetic"""
    if not (MP.isfinite(v)):
        raise Skip("not finite")
    a = abs(v)
    if a > 1e150:
        raise Skip("overflow")
    if a > st.scale:
        st.scale = float(a)
    if st.noisy is not None and not leaf and v != 0:
        r = st.noisy
        if MP.im(v) == 0 and a < 2**53 and MP.re(v) == MP.floor(MP.re(v)):
            return v
        if MP.im(v) == 0:
            v = v * (1 + MP.mpf(1e-15 * r.uniform(-1, 1)))
        else:
            v = v * (1 + MP.mpc(1e-15 * r.uniform(-1, 1), 1e-15 * r.uniform(-1, 1)))
    return v


def _num(st, x):
    if isinstance(x, bool):
        raise Unknown("bool")
    if isinstance(x, int):
        return _fin(st, MP.mpf(x), True)
    if isinstance(x, float):
        return _fin(st, MP.mpf(x), True)
    if isinstance(x, complex):
        return _fin(st, MP.mpc(x.real, x.imag), True)
    raise Unknown(type(x).__name__)


def _on_cut(z):
    """a value that was computed with complex arithmetic and lies on (or within rounding of) the negative
    real axis: fractional powers / logarithms of it depend on the sign of a zero or of rounding noise
    (Python complex numbers have signed zeros, the reference has not), so it has no usable value"""
    return isinstance(z, MP.mpc) and MP.re(z) < 0 and abs(MP.im(z)) <= 1e-9 * abs(z)


def _pow(st, b, w):
    try:
        if _on_cut(b) and not (MP.im(w) == 0 and MP.re(w) == MP.floor(MP.re(w))):
            raise Skip("branch cut")
        if b == 0:
            if w == 0:
                return _fin(st, MP.mpf(1))
            if MP.im(w) != 0:
                # Python's own complex power refuses a zero base with a complex exponent (ZeroDivisionError) even when
                # the real part is positive; number-only sub-trees are evaluated with Python arithmetic on the way
                # back, so such a tree has no usable value on either side
                raise Skip("0**complex")
            if MP.re(w) > 0:
                return _fin(st, MP.mpf(0))
            raise Skip("0**negative")
        if abs(w) * abs(MP.log(abs(b))) > 1e5 or abs(w) > 1e8:
            raise Skip("power out of range")
        return _fin(st, MP.power(b, w))
    except (ZeroDivisionError, OverflowError, ValueError):
        raise Skip("power undefined")


def _is_int(w):
    return MP.im(w) == 0 and MP.re(w) == MP.floor(MP.re(w))


def _power_of_power(st, main, bb, ee, w):
    """(bb**ee)**w: where this differs from bb**(ee*w) the value depends on not merging the exponents;
    sympy merges them on its own in some of these cases (sqrt((-1.03-0.5*I)**2.0) -> (-1.03-0.5*I)**1.0
    in sympy 1.9), so such an assignment gives no verdict"""
    if _is_int(w):
        return
    try:
        alt = _pow(st, bb, ee * w)
    except Skip:
        raise Skip("power of power")
    if abs(alt - main) > 1e-9 * max(abs(alt), abs(main)):
        raise Skip("power of power")


def _exp(st, z):
    if abs(MP.re(z)) > 1e5 or abs(MP.im(z)) > 1e8:
        raise Skip("exp out of range")
    return MP.exp(z)


def _trig(fn):
    def f(st, z):
        if abs(MP.re(z)) > 1e8 or abs(MP.im(z)) > 1e5:
            raise Skip("trig out of range")
        return fn(z)
    return f


def _log(st, z):
    if z == 0:
        raise Skip("log 0")
    if _on_cut(z):
        raise Skip("branch cut")
    return MP.log(z)


def _sqrt(st, z):
    if _on_cut(z):
        raise Skip("branch cut")
    return MP.sqrt(z)


FUNCS = {
    "sin": _trig(MP.sin), "cos": _trig(MP.cos), "tan": _trig(MP.tan), "exp": _exp,
    # not in the supported grammar; only used to value trees that were passed through
    "sinh": _trig(lambda z: MP.sinh(z)), "cosh": _trig(lambda z: MP.cosh(z)), "tanh": _trig(lambda z: MP.tanh(z)),
    "log": _log, "Abs": lambda st, z: abs(z), "atan": lambda st, z: MP.atan(z), "conjugate": lambda st, z: MP.conj(z),
    "cot": _trig(lambda z: MP.cot(z)), "sec": _trig(lambda z: MP.sec(z)), "csc": _trig(lambda z: MP.csc(z)),
    "asin": lambda st, z: MP.asin(z), "acos": lambda st, z: MP.acos(z), "re": lambda st, z: MP.re(z),
    "im": lambda st, z: MP.im(z), "sign": lambda st, z: MP.sign(z),
    "sqrt": _sqrt,
}


def _call(st, name, args):
    f = FUNCS.get(name)
    if f is None or len(args) != 1:
        raise Unknown(name)
    try:
        return _fin(st, f(st, args[0]))
    except (ZeroDivisionError, OverflowError, ValueError):
        raise Skip(f"{name} undefined")


def ev_sympy(e, env, st):
    """value of a sympy tree (or Python number) under env(name) -> mp number"""
    import sympy as S
    from sympy.core.function import AppliedUndef

    if isinstance(e, (int, float, complex)):
        return _num(st, e)
    if isinstance(e, S.Symbol):
        return _fin(st, env(_pname(e)), True)
    if isinstance(e, S.Integer):
        return _fin(st, MP.mpf(int(e)), True)
    if isinstance(e, S.Rational):
        if st.round_leaves:
            return _fin(st, MP.mpf(float(e)), True)
        return _fin(st, MP.mpf(int(e.p)) / MP.mpf(int(e.q)), True)
    if isinstance(e, S.Float):
        if st.round_leaves:
            return _fin(st, MP.mpf(float(e)), True)
        return _fin(st, MP.make_mpf(e._mpf_), True)
    if e is S.I:
        return MP.mpc(0, 1)
    if isinstance(e, S.Add):
        acc = MP.mpf(0)
        for a in e.args:
            acc = _fin(st, acc + ev_sympy(a, env, st))
        return acc
    if isinstance(e, S.Mul):
        acc = MP.mpf(1)
        for a in e.args:
            acc = _fin(st, acc * ev_sympy(a, env, st))
        return acc
    if isinstance(e, S.Pow):
        vb, w = ev_sympy(e.args[0], env, st), ev_sympy(e.args[1], env, st)
        main = _pow(st, vb, w)
        if isinstance(e.args[0], S.Pow):
            _power_of_power(st, main, ev_sympy(e.args[0].args[0], env, st), ev_sympy(e.args[0].args[1], env, st), w)
        return main
    if e is S.pi:
        return MP.pi
    if e is S.E:
        return MP.e
    if isinstance(e, AppliedUndef):
        raise Undefined(str(e.func))
    if isinstance(e, S.Function):
        return _call(st, type(e).__name__, [ev_sympy(a, env, st) for a in e.args])
    raise Unknown(type(e).__name__)


def ev_native(t, env, st):
    """value of a neutral tree (numbers, Symbol(name), FunctionCall(name, args))"""
    if isinstance(t, (int, float, complex)):
        return _num(st, t)
    tn = type(t).__name__
    if tn == "Symbol" and isinstance(t, tuple):
        return _fin(st, env(t.name), True)
    if tn == "FunctionCall" and isinstance(t, tuple):
        name = t.name
        args = [ev_native(a, env, st) for a in t.args]
        try:
            if name == "add" and args:
                acc = args[0]
                for a in args[1:]:
                    acc = _fin(st, acc + a)
                return acc
            if name == "mul" and args:
                acc = args[0]
                for a in args[1:]:
                    acc = _fin(st, acc * a)
                return acc
            if name == "sub" and len(args) == 2:
                return _fin(st, args[0] - args[1])
            if name == "div" and len(args) == 2:
                if args[1] == 0:
                    raise Skip("division by zero")
                return _fin(st, args[0] / args[1])
            if name in ("pow", "sqrt") and len(args) == (2 if name == "pow" else 1):
                w = args[1] if name == "pow" else MP.mpf(0.5)
                main = _pow(st, args[0], w) if name == "pow" else _call(st, name, args)
                inner = t.args[0]
                if type(inner).__name__ == "FunctionCall" and inner.name in ("pow", "sqrt"):
                    bb = ev_native(inner.args[0], env, st)
                    ee = ev_native(inner.args[1], env, st) if inner.name == "pow" else MP.mpf(0.5)
                    _power_of_power(st, main, bb, ee, w)
                return main
        except ZeroDivisionError:
            raise Skip("division by zero")
        if name in ("sin", "cos", "tan", "exp"):
            return _call(st, name, args)
        raise Unknown(name)
    return ev_sympy(t, env, st)  # sympy numbers passed through unchanged


def value_for(name, k):
    """deterministic value of symbol ``name`` in assignment k (depends on the case salt)"""
    h = zlib.crc32(f"{_SALT}:{k}:{name}".encode())
    u = (h & 0xFFFFF) / float(0x100000)  # [0,1)
    sgn = -1 if (h >> 24) & 1 else 1
    if k == 0:
        v = 0.3 + 2.2 * u
    elif k == 1:
        v = -(0.3 + 2.2 * u)
    elif k == 2:
        v = sgn * (0.01 + 0.49 * u)
    elif k == 3:
        v = sgn * (10 + 990 * u)
    else:
        v = sgn * (0.5 + 2.5 * u)
    if name in _POS:
        v = abs(v)  # an assignment has to respect the assumptions sympy simplified under
    return MP.mpf(v)


def _declare(e):
    """remember which symbol names the expression declares positive"""
    try:
        for s in e.free_symbols:
            if s.is_positive:
                _POS.add(_pname(s))
    except Exception:
        pass


_REF_MEMO = {}  # per case: (interpreter, id of the object, n, positive names) -> (object, reference values)


def reference_values(eval_fn, obj, n=N_ASSIGN):
    """per assignment: ('ok', value, scale) | ('skip', why) ; raises Unknown.  Within one case the values of
    the very same (immutable) input object are computed once: histories translate one tree many times"""
    key = (eval_fn.__name__, id(obj), n, frozenset(_POS))
    hit = _REF_MEMO.get(key)
    if hit is not None and hit[0] is obj:
        return hit[1]
    out = _reference_values(eval_fn, obj, n)
    _REF_MEMO[key] = (obj, out)
    return out


def _reference_values(eval_fn, obj, n):
    out = []
    for k in range(n):
        env = lambda name, k=k: value_for(name, k)  # noqa: E731
        try:
            st = St(round_leaves=True)
            clean = eval_fn(obj, env, st)
            scale = st.scale
            stable = True
            for j in range(3):
                sn = St(noisy=random.Random(1000 * k + j), round_leaves=True)
                noisy = eval_fn(obj, env, sn)
                if abs(noisy - clean) > 1e-11 * abs(clean) + 1e-27 * scale:
                    stable = False
                    break
            if not stable:
                out.append(("skip", "ill-conditioned"))
            else:
                out.append(("ok", clean, scale))
        except Skip as s:
            out.append(("skip", str(s)))
    return out


def compare_values(ref, eval_fn, obj):
    """returns (verdict, detail): 'same' | 'differ' | 'noverdict'"""
    judged = 0
    for k, r in enumerate(ref):
        if r[0] != "ok":
            continue
        env = lambda name, k=k: value_for(name, k)  # noqa: E731
        st = St()
        try:
            got = eval_fn(obj, env, st)
        except Skip as s:
            # the reference is defined and well conditioned here, the result is not
            if str(s) in ("overflow", "power out of range", "exp out of range", "trig out of range", "branch cut",
                          "power of power"):
                continue
            return "differ", f"assignment {k}: expected {MP.nstr(r[1], 15)}, result undefined ({s})"
        judged += 1
        exp = r[1]
        if abs(got - exp) > TOL * max(abs(got), abs(exp)) + 1e-25 * max(r[2], st.scale):
            names = sorted(_names_of(obj))
            vals = {n: MP.nstr(value_for(n, k), 8) for n in names[:6]}
            return "differ", f"assignment {k} {vals}: expected {MP.nstr(exp, 15)}, got {MP.nstr(got, 15)}"
    return ("same", f"{judged} assignments") if judged else ("noverdict", "no assignment with a usable value")


def _names_of(obj):
    try:
        return {_pname(s) for s in obj.free_symbols}
    except Exception:
        out = set()

        def walk(t):
            if type(t).__name__ == "Symbol" and isinstance(t, tuple):
                out.add(t.name)
            elif type(t).__name__ == "FunctionCall":
                for a in t.args:
                    walk(a)
        walk(obj)
        return out


# ---------------------------------------------------------------------------- exact integer arithmetic
# Integers are the one kind of number the neutral tree carries without loss (Python int <-> sympy Integer),
# so an expression over symbols and integers with +, -, *, integer powers and division by symbolic
# denominators has, at integer symbol values, an exact rational value that both translations must keep
# exactly: no tolerance, no magnitude limit (2**53+1, 2**64+1, 10**400 are ordinary integers).
class Inexact(Exception):
    """the object is outside the class whose values are exact"""


X_BITS = 200000  # exact powers are computed up to this many bits
N_XASSIGN = 3


def xvalue_for(name, k):
    """integer value of symbol ``name`` in exact assignment k (never zero)"""
    h = zlib.crc32(f"{_SALT}:x{k}:{name}".encode())
    sgn = -1 if (h >> 24) & 1 else 1
    if k == 0:
        v = 1 + h % 7
    elif k == 1:
        v = -(1 + h % 9)
    else:
        v = sgn * (11 + h % 90)
    if name in _POS:
        v = abs(v)
    return Fraction(v)


def _xbits(q):
    return q.numerator.bit_length() + q.denominator.bit_length()


def _xpow(b, w):
    if w.denominator != 1:
        raise Inexact("fractional exponent")
    n = w.numerator
    if n == 0:
        return Fraction(1)
    if b == 0:
        if n < 0:
            raise Skip("division by zero")
        return Fraction(0)
    if abs(n) * _xbits(b) > X_BITS:
        raise Skip("power too large")
    return b ** n


def _xdiv(a, b):
    if b == 0:
        raise Skip("division by zero")
    return a / b


def _xnumber(x, strict):
    if isinstance(x, bool):
        raise Inexact("bool")
    if isinstance(x, int):
        return Fraction(x)
    if strict:
        raise Inexact(type(x).__name__)  # floats (and what rationals become) are rounded legitimately
    if isinstance(x, complex) and x.imag == 0:
        x = x.real
    if isinstance(x, float) and x == x and x not in (float("inf"), float("-inf")) and x == int(x):
        return Fraction(x)  # the exact value of the double
    # a float with a fractional part in a result is what a rational became (sympy can produce rationals when it
    # evaluates integer sub-trees, e.g. 1/(3*x) -> Rational(1, 3)/x): the accepted loss, no exact value
    raise Inexact(type(x).__name__)


def ex_sympy(e, env, strict):
    """(exact value, contains a symbol) of a sympy tree / Python number.  strict (the object is the INPUT of a
    translation): Float / non-integer Rational / I leaves, functions and symbol-free sub-trees with a
    division or negative power (the library or sympy evaluates those in floating point, the accepted loss)
    raise Inexact.  Not strict (the object is a RESULT): every finite real leaf counts with its exact value"""
    import sympy as S

    if isinstance(e, (int, float, complex)):
        return _xnumber(e, strict), False
    if isinstance(e, S.Symbol):
        return env(_pname(e)), True
    if isinstance(e, S.Integer):
        return Fraction(int(e)), False
    if isinstance(e, S.Rational):
        if strict:
            raise Inexact("Rational")
        return Fraction(int(e.p), int(e.q)), False
    if isinstance(e, S.Float):
        if strict:
            raise Inexact("Float")
        try:
            p, q = mpmath.libmp.to_rational(e._mpf_)
        except Exception:
            raise Inexact("Float")
        if int(q) != 1:
            raise Inexact("Float")  # see _xnumber
        return Fraction(int(p)), False
    if isinstance(e, (S.Add, S.Mul)):
        if strict and isinstance(e, S.Add) and len(e.args) == 2 and isinstance(e.args[1], S.Mul) \
                and e.args[1].args and e.args[1].args[0] == -1:
            # x + (-1)*y: the library converts the subtrahend from `y_term * (-1)`, which sympy evaluates; on a tree
            # built with evaluate=False that can produce rationals (-(1/(3*z)) * (-1) -> Rational(1, 3)/z) which
            # legitimately become floats: the input is exact only if that product is (its value is not used)
            try:
                negated = e.args[1] * (-1)
            except Exception:
                raise Inexact("negation fails inside sympy")
            ex_sympy(negated, env, True)
        acc, sym = Fraction(0 if isinstance(e, S.Add) else 1), False
        for a in e.args:
            v, s = ex_sympy(a, env, strict)
            acc = acc + v if isinstance(e, S.Add) else acc * v
            sym = sym or s
        return acc, sym
    if isinstance(e, S.Pow):
        (b, sb), (w, sw) = ex_sympy(e.args[0], env, strict), ex_sympy(e.args[1], env, strict)
        if strict and w < 0 and not (sb or sw):
            raise Inexact("numeric negative power")
        return _xpow(b, w), sb or sw
    raise Inexact(type(e).__name__)


def ex_native(t, env, strict):
    """the same for a neutral tree"""
    if isinstance(t, (int, float, complex)):
        return _xnumber(t, strict), False
    tn = type(t).__name__
    if tn == "Symbol" and isinstance(t, tuple):
        return env(t.name), True
    if tn == "FunctionCall" and isinstance(t, tuple):
        name = t.name
        args = [ex_native(a, env, strict) for a in t.args]
        sym = any(s for _, s in args)
        vals = [v for v, _ in args]
        if name in ("add", "mul") and vals:
            acc = vals[0]
            for v in vals[1:]:
                acc = acc + v if name == "add" else acc * v
            return acc, sym
        if name == "sub" and len(vals) == 2:
            return vals[0] - vals[1], sym
        if name == "div" and len(vals) == 2:
            if strict and not sym:
                raise Inexact("numeric division")
            return _xdiv(vals[0], vals[1]), sym
        if name == "pow" and len(vals) == 2:
            if strict and vals[1] < 0 and not sym:
                raise Inexact("numeric negative power")
            return _xpow(vals[0], vals[1]), sym
        raise Inexact(name)
    if tn in ("Symbol", "FunctionCall"):
        raise Inexact(tn)
    return ex_sympy(t, env, strict)  # sympy numbers passed through unchanged


def exact_reference(eval_fn, obj):
    """per exact assignment ('ok', Fraction) | ('skip', why); raises Inexact when ``obj`` (an input) is
    outside the exact class"""
    key = ("exact", eval_fn.__name__, id(obj), frozenset(_POS))
    hit = _REF_MEMO.get(key)
    if hit is not None and hit[0] is obj:
        if isinstance(hit[1], Inexact):
            raise hit[1]
        return hit[1]
    out = []
    try:
        for k in range(N_XASSIGN):
            env = lambda name, k=k: xvalue_for(name, k)  # noqa: E731
            try:
                out.append(("ok", eval_fn(obj, env, True)[0]))
            except Skip as s:
                out.append(("skip", str(s)))
            except (ZeroDivisionError, OverflowError, MemoryError) as s:
                out.append(("skip", type(s).__name__))
    except Inexact as i:
        _REF_MEMO[key] = (obj, i)
        raise
    except RecursionError:
        i = Inexact("too deep")
        _REF_MEMO[key] = (obj, i)
        raise i
    _REF_MEMO[key] = (obj, out)
    return out


def exact_verdict(in_fn, obj, out_fn, result):
    """('same' | 'differ' | 'noverdict', detail): exact values of the input ``obj`` against the exact values of
    what a translation made of it; 'noverdict' when either side is outside the exact class"""
    try:
        ref = exact_reference(in_fn, obj)
    except Inexact:
        return "noverdict", "input outside the exact class"
    judged = 0
    for k, r in enumerate(ref):
        if r[0] != "ok":
            continue
        env = lambda name, k=k: xvalue_for(name, k)  # noqa: E731
        try:
            got = out_fn(result, env, False)[0]
        except Inexact as i:
            return "noverdict", f"result outside the exact class ({i})"
        except RecursionError:
            return "noverdict", "result too deep"
        except Skip as s:
            if str(s) == "division by zero":
                return "differ", f"exact assignment {k}: expected {_xshow(r[1])}, result undefined ({s})"
            continue
        except (ZeroDivisionError, OverflowError, MemoryError):
            continue
        judged += 1
        if got != r[1]:
            names = sorted(_names_of(obj))[:6]
            vals = {n: int(xvalue_for(n, k)) for n in names}
            return "differ", (f"exact assignment {k} {vals}: expected {_xshow(r[1])}, got {_xshow(got)} "
                              f"(difference {_xshow(got - r[1])})")
    return ("same", f"{judged} exact assignments") if judged else ("noverdict", "no exact assignment with a value")


def exact_defined(eval_fn, obj):
    """the input has an exact value at some assignment"""
    try:
        return any(r[0] == "ok" for r in exact_reference(eval_fn, obj))
    except Inexact:
        return False


def _xshow(q):
    s = str(q)
    return s if len(s) <= 90 else f"{s[:40]}...{s[-40:]} ({len(s)} characters)"


def unsupported_nodes(e):
    """type names of the nodes outside the supported grammar (pre-order)"""
    import sympy as S

    bad = []
    stack = [e]
    while stack:
        n = stack.pop()
        if isinstance(n, (int, float, complex)) and not isinstance(n, bool):
            continue
        if not isinstance(n, S.Basic):
            bad.append(type(n).__name__)
            continue
        if isinstance(n, (S.Symbol, S.Integer, S.Rational, S.Float)) or n is S.I:
            continue
        if isinstance(n, (S.Add, S.Mul, S.Pow)) or type(n) in (S.sin, S.cos, S.tan, S.exp):
            stack.extend(n.args)
            continue
        bad.append(type(n).__name__)
        stack.extend(getattr(n, "args", ()))
    return bad


def native_unknown_names(t):
    out = []

    def walk(x):
        if type(x).__name__ == "FunctionCall" and isinstance(x, tuple):
            if x.name not in ("add", "mul", "sub", "div", "pow", "sqrt", "sin", "cos", "tan", "exp"):
                out.append(x.name)
            for a in x.args:
                walk(a)
    walk(t)
    return out


def size_of(e):
    try:
        return sum(1 for _ in _preorder(e))
    except Exception:
        return 1


def _preorder(e):
    yield e
    for a in getattr(e, "args", ()):
        yield from _preorder(a)


def _show(e, out, budget):
    """structural printer (sympy's own printers can raise on unevaluated trees)"""
    import sympy as S

    if budget[0] <= 0:
        return
    if isinstance(e, S.Basic) and e.args and not isinstance(e, (S.Integer, S.Rational, S.Float)):
        out.append(type(e).__name__ + "(")
        budget[0] -= len(out[-1])
        for i, a in enumerate(e.args):
            if i:
                out.append(", ")
            _show(a, out, budget)
        out.append(")")
        return
    try:
        t = S.srepr(e) if isinstance(e, S.Basic) else repr(e)
    except Exception:
        t = f"<{type(e).__name__}>"
    out.append(t)
    budget[0] -= len(t)


def srepr_short(e, limit=500):
    out = []
    try:
        _show(e, out, [limit])
    except Exception:
        out.append(f"<{type(e).__name__}>")
    s = "".join(out)
    return s if len(s) <= limit else s[: limit - 3] + "..."


# ============================================================================ monitors
def _sympy_internal(exc):
    """an exception class defined by sympy itself (e.g. polys' GeneratorsNeeded while sympy evaluates an
    unevaluated tree that even str() cannot print): environment, not a refusal by the library"""
    if (type(exc).__module__ or "").startswith("sympy"):
        return True
    if isinstance(exc, RecursionError):  # sympy's assumption/evaluation machinery looping on an exotic tree
        import traceback

        tb = traceback.extract_tb(exc.__traceback__)
        return bool(tb) and "/sympy/" in tb[-1].filename.replace("\\", "/")
    return False


def _is_sympy_expr(x):
    import sympy as S

    return isinstance(x, S.Basic) and not isinstance(x, S.Tuple)


def _post_from_sympy(mon, call):
    name = "expression_from_sympy"
    e = call.args[0] if call.args else None
    if not _is_sympy_expr(e):
        mon.out_of_domain(name)  # tuples of arguments, native numbers
        return
    _declare(e)
    bad = unsupported_nodes(e)
    if call.exc is not None and _sympy_internal(call.exc):
        mon.note(f"sympy-internal-error:{type(call.exc).__name__}")
        mon.out_of_domain(name)
        return
    if call.exc is not None:
        if bad:
            mon.ok(name)  # refusal of a tree with an unsupported node
            mon.note("from_sympy:refused-unsupported")
            return
        try:
            ref = reference_values(ev_sympy, e)
        except Unknown:
            ref = []
        if (any(r[0] == "ok" for r in ref) or exact_defined(ex_sympy, e)) and not _evaluated_form_unsupported(e):
            mon.violation("supported-refused", f"expression_from_sympy({srepr_short(e)}) raised {call.exc!r}")
        else:
            mon.out_of_domain(name)
        return
    t = call.result
    xverdict, xdetail = exact_verdict(ex_sympy, e, ex_native, t)
    if xverdict == "differ":
        mon.violation("tree-value-differs-exactly", f"{srepr_short(e)} -> {str(t)[:500]}: {xdetail}")
        return
    mon.note(f"from_sympy:exact-{xverdict}")
    if native_unknown_names(t):
        if bad:
            mon.note("from_sympy:deferred-to-dialect")
            mon.ok(name)  # carries a function name no dialect entry exists for: refused at translation
        elif _evaluated_form_unsupported(e):
            # e.g. -(theta**2)**(2/3) with real theta: the library's `expr * (-1)` makes sympy evaluate it to Abs(theta)**(4/3)
            mon.note("from_sympy:evaluation-introduced-unsupported-node")
            mon.out_of_domain(name)
        else:
            mon.violation("tree-has-unknown-function", f"{srepr_short(e)} -> {t!r}")
        return
    try:
        ref = reference_values(ev_sympy, e)
        verdict, detail = compare_values(ref, ev_native, t)
    except Undefined as u:
        # an undefined function whose name is a dialect entry: it has no value to compare with
        mon.note(f"undefined-function-named-like-dialect-entry:{u}")
        mon.out_of_domain(name)
        return
    except Unknown:
        mon.out_of_domain(name)
        mon.note("from_sympy:not-valued")
        return
    if verdict == "differ":
        kind = "unsupported-translated" if bad else "tree-value-differs"
        mon.violation(kind, f"{srepr_short(e)} -> {str(t)[:500]}: {detail}")
    elif verdict == "same" or xverdict == "same":
        mon.ok(name)
        if bad:
            mon.note("from_sympy:unsupported-passed-same-value")
    else:
        mon.out_of_domain(name)


def _is_sympy_dialect(d):
    lib = _LIB.get("SYMPY_DIALECT")
    return d is lib


def _post_translate(mon, call):
    name = "translate_expression"
    t = call.args[0] if call.args else call.kwargs.get("expression")
    d = call.args[1] if len(call.args) > 1 else call.kwargs.get("dialect")
    if not _is_sympy_dialect(d):
        mon.out_of_domain(name)
        return
    tn = type(t).__name__
    if not (isinstance(t, (int, float, complex)) or tn in ("Symbol", "FunctionCall") or _is_sympy_expr(t)) or isinstance(t, bool):
        mon.out_of_domain(name)
        return
    unknown = native_unknown_names(t)
    if unknown:
        if call.exc is None:
            mon.violation("unknown-function-translated", f"{str(t)[:400]} with unknown {unknown} -> {srepr_short(call.result)}")
        else:
            mon.ok(name)
            mon.note("translate:refused-unknown-function")
        return
    try:
        ref = reference_values(ev_native, t)
    except Unknown:
        mon.out_of_domain(name)
        return
    if call.exc is not None and _sympy_internal(call.exc):
        mon.note(f"sympy-internal-error:{type(call.exc).__name__}")
        mon.out_of_domain(name)
        return
    if call.exc is not None:
        if any(r[0] == "ok" for r in ref) or exact_defined(ex_native, t):
            mon.violation("translate-raises", f"translate_expression({str(t)[:400]}) raised {call.exc!r}")
        else:
            mon.out_of_domain(name)
        return
    xverdict, xdetail = exact_verdict(ex_native, t, ex_sympy, call.result)
    if xverdict == "differ":
        mon.violation("translation-value-differs-exactly", f"{str(t)[:400]} -> {srepr_short(call.result)}: {xdetail}")
        return
    mon.note(f"translate:exact-{xverdict}")
    try:
        verdict, detail = compare_values(ref, ev_sympy, call.result)
    except Unknown as u:
        if str(u) in ("ComplexInfinity", "Infinity", "NegativeInfinity", "NaN"):
            # sympy folded a literal division by zero (0**-y -> zoo**y): infinities are not numbers
            mon.note(f"translate:result-has-{u}")
            mon.out_of_domain(name)
        else:
            mon.violation("translated-not-valued", f"{str(t)[:400]} -> {srepr_short(call.result)}: node {u}")
        return
    if verdict == "differ":
        mon.violation("translation-value-differs", f"{str(t)[:400]} -> {srepr_short(call.result)}: {detail}")
    elif verdict == "same" or xverdict == "same":
        mon.ok(name)
    else:
        mon.out_of_domain(name)


def _post_translate_tuple(mon, call):
    name = "translate_tuple"
    d = call.args[1] if len(call.args) > 1 else call.kwargs.get("dialect")
    if not _is_sympy_dialect(d) or call.exc is not None:
        mon.out_of_domain(name)
        return
    try:
        items = list(call.args[0])
    except Exception:
        mon.out_of_domain(name)
        return
    res = call.result
    if not isinstance(res, tuple) or len(res) != len(items):
        mon.violation("tuple-length", f"{len(items)} elements -> {res!r}")
        return
    judged = 0
    for i, (t, r) in enumerate(zip(items, res)):
        try:
            ref = reference_values(ev_native, t, n=2)
            verdict, detail = compare_values(ref, ev_sympy, r)
        except Unknown:
            continue
        if verdict == "differ":
            mon.violation("tuple-element-differs", f"element {i}: {str(t)[:300]} -> {srepr_short(r, 300)}: {detail}")
            return
        judged += verdict == "same"
    if judged:
        mon.ok(name)
    else:
        mon.out_of_domain(name)


# ---- sort keys: independent tokeniser and comparator
def tokens(name):
    """maximal runs of decimal digits (as int) and of other characters (as str)"""
    out = []
    cur = ""
    cur_digit = None
    for ch in name:
        d = ch in "0123456789"
        if cur and d != cur_digit:
            out.append(int(cur) if cur_digit else cur)
            cur = ""
        cur += ch
        cur_digit = d
    if cur:
        out.append(int(cur) if cur_digit else cur)
    return out


def skeleton(name):
    return tuple(t if isinstance(t, str) else None for t in tokens(name))


def ints_of(name):
    return tuple(t for t in tokens(name) if isinstance(t, int))


def _post_key(fn):
    def post(mon, call):
        sym = call.args[0] if call.args else call.kwargs.get("symbol")
        nm = getattr(sym, "name", None)
        if not isinstance(nm, str) or not nm.isascii():
            mon.out_of_domain(fn)
            return
        if call.exc is not None:
            mon.violation("key-raises", f"{fn}({nm!r}) raised {call.exc!r}")
            return
        key = call.result
        seen = _KEYS[fn]
        sk = skeleton(nm)
        mine = ints_of(nm) if fn == "natural_key" else tuple(reversed(ints_of(nm)))
        judged = 0
        for other, okey in seen[-40:]:
            if skeleton(other) != sk:
                continue
            theirs = ints_of(other) if fn == "natural_key" else tuple(reversed(ints_of(other)))
            try:
                lt, gt, eq = key < okey, key > okey, key == okey
            except TypeError as e:
                mon.violation("keys-not-comparable", f"{fn}: {nm!r} {key!r} vs {other!r} {okey!r}: {e!r}")
                return
            exp = (mine < theirs, mine > theirs, mine == theirs)
            if (bool(lt), bool(gt), bool(eq)) != exp:
                mon.violation("key-order", f"{fn}: {nm!r} {key!r} vs {other!r} {okey!r}: "
                                           f"(<,>,==)=({lt},{gt},{eq}) expected {exp} from integers {mine} vs {theirs}")
                return
            judged += 1
        seen.append((nm, key))
        if judged:
            mon.ok(fn)
        else:
            mon.note(f"{fn}:first-of-its-skeleton")
    return post


def install(mon, reach):
    from orquestra.quantum import circuits  # noqa: F401  (imports every user of the hooked functions)
    from orquestra.quantum.circuits.symbolic import _sorting as SO
    from orquestra.quantum.circuits.symbolic import expressions as EX
    from orquestra.quantum.circuits.symbolic import sympy_expressions as SE
    from orquestra.quantum.circuits.symbolic import translations as TR

    _LIB["SYMPY_DIALECT"] = SE.SYMPY_DIALECT
    _LIB["EX"] = EX
    for fn in ("identity", "symbol_from_sympy", "native_integer_from_sympy_integer", "native_float_from_sympy_float",
               "native_float_from_sympy_rational", "native_imaginary_unit_from_sympy_imaginary_unit",
               "addition_from_sympy_add", "multiplication_from_sympy_mul", "power_from_sympy_pow",
               "function_call_from_sympy_function", "expression_tuple_from_tuple_of_sympy_args",
               "is_multiplication_by_reciprocal", "is_addition_of_negation", "_negate_sympy_expr"):
        reach.watch(getattr(SE, fn, None), fn)  # a handler that was renamed / merged is reported as missing
    for fn in ("translate_number", "translate_symbol", "translate_function_call", "translate_tuple"):
        reach.watch(getattr(TR, fn, None), fn)
    reach.watch(SO.natural_key, "natural_key")
    reach.watch(SO.natural_key_revlex, "natural_key_revlex")
    reach.watch(getattr(SO, "_convert_string_to_int_if_possible", None), "_convert_string_to_int_if_possible")

    mon.hook_func(SE, "expression_from_sympy", post=_post_from_sympy, name="expression_from_sympy")
    mon.hook_func(TR, "translate_expression", post=_post_translate, name="translate_expression")
    mon.hook_func(TR, "translate_tuple", post=_post_translate_tuple, name="translate_tuple")
    mon.hook_func(SO, "natural_key", post=_post_key("natural_key"), name="natural_key")
    mon.hook_func(SO, "natural_key_revlex", post=_post_key("natural_key_revlex"), name="natural_key_revlex")


# ============================================================================ generators
NAMES = ["x", "y", "z", "t", "theta", "theta_0", "theta_10", "beta_2", "beta_10", "gamma_1_2", "a12b3",
         "alpha", "lambda", "pi", "E", "I", "oo", "x_", "q0", "q00"]


def rand_symbol(rng):
    import sympy as S

    nm = rng.choice(NAMES[:4]) if rng.random() < 0.6 else rng.choice(NAMES)
    r = rng.random()
    if r < 0.1:
        return S.Symbol(nm, real=True)
    if r < 0.18:
        return S.Symbol(nm, positive=True)
    if r < 0.26:
        return symbol_form(rng, S, nm)
    return S.Symbol(nm)


ODD_NAMES = ["{x}", "x'", "x y", "\u03b1", "x.y", "x-1", "2x", "x^2", "x[0", "\\x", "x:y", "<x>", "x,y", "(x)"]


def symbol_form(rng, S, nm):
    """a symbol in one of the other forms sympy hands symbols out in: every one is an instance of sympy.Symbol (the
    single-dispatch target), prints under a name of its own and is, to sympy, a different symbol from Symbol(nm)"""
    kind = rng.choice(["dummy", "dummy", "wild", "underscore-before", "underscore-after", "dummy-assumption",
                       "anonymous-dummy", "numbered", "odd-name", "lambda-variable", "cse"])
    if kind == "dummy":
        return S.Dummy(nm)
    if kind == "wild":
        return S.Wild(nm)
    if kind == "underscore-before":
        return S.Symbol("_" + nm)
    if kind == "underscore-after":
        return S.Symbol(nm + "_")
    if kind == "dummy-assumption":
        return S.Dummy(nm, real=True) if rng.random() < 0.5 else S.Dummy(nm, positive=True)
    if kind == "anonymous-dummy":
        return S.Dummy()
    if kind == "numbered":
        g = S.numbered_symbols(nm, cls=rng.choice([S.Symbol, S.Dummy]), start=rng.choice([0, 1, 9, 10]))
        return next(g)
    if kind == "odd-name":
        return S.Symbol(rng.choice(ODD_NAMES))
    if kind == "lambda-variable":
        # Lambda replaces its variable by a Dummy only when asked to; its canonical variable is what users see
        return S.Lambda(S.Symbol(nm), S.Symbol(nm) ** 2).variables[0] if rng.random() < 0.5 else S.Dummy(nm.upper())
    # the replacement symbols of a common-subexpression elimination run with Dummy symbols
    x = S.Symbol(nm)
    repl, _ = S.cse([S.sin(x + 1) + S.cos(x + 1)], symbols=S.numbered_symbols(nm, cls=S.Dummy))
    return repl[0][0] if repl else S.Dummy(nm)


def rand_number(rng, allow_zero=True):
    import sympy as S

    r = rng.random()
    if r < 0.4:
        v = rng.choice([-3, -2, -1, 1, 2, 3, 4, 5, 7, 10] + ([0] if allow_zero else []))
        if rng.random() < 0.04:
            v = rng.choice([10**20, 2**64 + 1, -(10**18), 2**53 + 1, 10**20 + 3, -(2**63) - 1, 3**40])
        return S.Integer(v)
    if r < 0.65:
        return S.Float(rng.choice([0.5, -2.25, 1e-3, 3.7, -0.1, 2.0, 1.0, -1.0, 1e10, -0.5, 1.5,
                                   rng.uniform(-5, 5), rng.uniform(-5, 5)]))
    if r < 0.9:
        p, q = rng.choice([(1, 3), (-7, 2), (22, 7), (1, 2), (-1, 2), (3, 4), (2, 3), (-5, 9), (1, 1000), (355, 113)])
        return S.Rational(p, q)
    return S.I


def rand_leaf(rng, symbols=True):
    if symbols and rng.random() < 0.55:
        return rand_symbol(rng)
    return rand_number(rng)


def rand_exponent(rng, depth, evaluate, symbols):
    import sympy as S

    r = rng.random()
    if r < 0.7:
        return rng.choice([S.Integer(2), S.Integer(3), S.Integer(-1), S.Integer(-2), S.Rational(1, 2), S.Rational(-1, 2),
                           S.Float(0.5), S.Float(-0.5), S.Float(-1.0), S.Rational(1, 3), S.Float(1.5), S.Integer(0),
                           S.Rational(3, 2), S.Float(2.0)])
    if r < 0.85:
        return rand_leaf(rng, symbols)
    return rand_tree(rng, min(depth, 1), evaluate, symbols)


def _magnitude(S, x):
    try:
        return abs(complex(S.N(x, 8)))
    except Exception:
        return float("inf")


def rand_tree(rng, depth, evaluate=True, symbols=True):
    import sympy as S

    if depth <= 0 or rng.random() < 0.12:
        return rand_leaf(rng, symbols)
    op = rng.choice(["add", "add", "sub", "sub", "sub", "mul", "mul", "div", "div", "div", "pow", "pow", "pow",
                     "sqrt", "neg", "func", "func", "func"])
    sub = lambda: rand_tree(rng, depth - 1 - (rng.random() < 0.3), evaluate, symbols)  # noqa: E731
    ev = {} if evaluate else {"evaluate": False}
    if op == "add":
        args = [sub() for _ in range(rng.choice([2, 2, 3]))]
        return S.Add(*args, **ev)
    if op == "sub":
        a, b = sub(), sub()
        neg = S.Mul(S.Integer(-1), b, **ev)
        return S.Add(a, neg, **ev) if rng.random() < 0.5 else S.Add(neg, a, **ev)
    if op == "mul":
        args = [sub() for _ in range(rng.choice([2, 2, 3]))]
        return S.Mul(*args, **ev)
    if op == "div":
        a, b = sub(), sub()
        inv = S.Pow(b, S.Integer(-1), **ev)
        return S.Mul(a, inv, **ev) if rng.random() < 0.5 else S.Mul(inv, a, **ev)
    if op == "pow":
        base = sub()
        x = rand_exponent(rng, depth - 1, evaluate, symbols)
        if getattr(x, "is_number", False):
            # numeric towers make sympy (eager Integer/Rational powers) and Python's int pow run for
            # minutes: keep numeric exponents small, and tiny when the base is numeric as well
            limit = 4 if getattr(base, "is_number", False) else 40
            if _magnitude(S, x) > limit:
                x = rng.choice([S.Integer(2), S.Integer(3), S.Integer(-2), S.Rational(1, 2), S.Float(-0.5)])
        return S.Pow(base, x, **ev)
    if op == "sqrt":
        return S.sqrt(sub()) if evaluate else S.Pow(sub(), S.Rational(1, 2), evaluate=False)
    if op == "neg":
        return S.Mul(S.Integer(-1), sub(), **ev)
    f = rng.choice([S.sin, S.cos, S.tan, S.exp])
    arg = sub()
    if getattr(arg, "is_number", False):
        # sympy evaluates functions of floats eagerly; a huge argument makes the argument
        # reduction / exponent arithmetic run for minutes (environment, not the library under test)
        if _magnitude(S, arg) > (1e3 if f is S.exp else 1e6):
            arg = S.Float(rng.uniform(-5, 5))
    return f(arg, **ev)


# ---------------------------------------------------------------------------- integer expressions
BIG_BITS = (31, 32, 53, 54, 63, 64, 65, 100, 128, 256, 1030)


def rand_big_integer(rng):
    """integers around and beyond the sizes at which another number type would stop being exact: int32 /
    int64 / the 53-bit mantissa and the 1e308 range of a double"""
    r = rng.random()
    if r < 0.45:
        n = 2 ** rng.choice(BIG_BITS) + rng.choice([-3, -1, 0, 1, 1, 3, 5])
    elif r < 0.65:
        n = 10 ** rng.choice([16, 17, 20, 30, 100, 400]) + rng.choice([1, 3, 7, -1])
    elif r < 0.75:
        n = 3 ** rng.choice([34, 40, 41, 81])
    else:
        bits = rng.choice([54, 57, 62, 64, 65, 70, 96, 128, 200])
        n = rng.getrandbits(bits) | (1 << (bits - 1)) | 1
    return -n if rng.random() < 0.35 else n


def not_a_double(n):
    try:
        return int(float(n)) != n
    except OverflowError:
        return True


def rand_integer_tree(rng, depth, evaluate=True):
    """trees over symbols and integers with +, -, *, integer powers and division by symbolic denominators"""
    import sympy as S

    ev = {} if evaluate else {"evaluate": False}

    def leaf():
        r = rng.random()
        if r < 0.4:
            return rand_symbol(rng)
        if r < 0.6:
            return S.Integer(rng.choice([-3, -2, -1, 0, 1, 2, 3, 5, 7, 10, 1000]))
        return S.Integer(rand_big_integer(rng))

    def symbolic(x):
        return x if getattr(x, "free_symbols", None) else S.Add(x, rand_symbol(rng), **ev)

    if depth <= 0 or rng.random() < 0.1:
        return leaf()
    sub = lambda: rand_integer_tree(rng, depth - 1 - (rng.random() < 0.3), evaluate)  # noqa: E731
    op = rng.choice(["add", "add", "add", "sub", "sub", "sub", "mul", "mul", "mul", "div", "div", "pow", "pow", "neg"])
    if op == "add":
        return S.Add(*[sub() for _ in range(rng.choice([2, 2, 3]))], **ev)
    if op == "sub":
        a, neg = sub(), S.Mul(S.Integer(-1), sub(), **ev)
        return S.Add(a, neg, **ev) if rng.random() < 0.5 else S.Add(neg, a, **ev)
    if op == "mul":
        return S.Mul(*[sub() for _ in range(rng.choice([2, 2, 3]))], **ev)
    if op == "div":
        a, inv = sub(), S.Pow(symbolic(sub()), S.Integer(-1), **ev)
        return S.Mul(a, inv, **ev) if rng.random() < 0.5 else S.Mul(inv, a, **ev)
    if op == "pow":
        base = sub()
        x = rng.choice([2, 2, 3, 3, 4, -1, -2, 0, 1, None])
        if x is None:
            return S.Pow(base, rand_symbol(rng), **ev)
        if x < 0:
            base = symbolic(base)
        return S.Pow(base, S.Integer(x), **ev)
    return S.Mul(S.Integer(-1), sub(), **ev)


def special_shapes():
    """(label, builder(S, a, b, c)) - the shapes the special cases are written for, in every operand order"""
    def U(S, cls, *args):
        return cls(*args, evaluate=False)
    return [
        ("a-b", lambda S, a, b, c: a - b),
        ("-b+a", lambda S, a, b, c: -b + a),
        ("a-2b", lambda S, a, b, c: a - 2 * b),
        ("a-b/2", lambda S, a, b, c: a - b / 2),
        ("1/a", lambda S, a, b, c: 1 / a),
        ("a/b", lambda S, a, b, c: a / b),
        ("2/a", lambda S, a, b, c: 2 / a),
        ("a**-2", lambda S, a, b, c: a ** -2),
        ("sqrt(a)", lambda S, a, b, c: S.sqrt(a)),
        ("a**0.5", lambda S, a, b, c: a ** 0.5),
        ("a**(1/2)*b", lambda S, a, b, c: a ** S.Rational(1, 2) * b),
        ("a**-0.5", lambda S, a, b, c: a ** -0.5),
        ("a**(-1/2)", lambda S, a, b, c: a ** S.Rational(-1, 2)),
        ("a**-1.0", lambda S, a, b, c: a ** S.Float(-1.0)),
        ("Add(a,-b)!", lambda S, a, b, c: U(S, S.Add, a, U(S, S.Mul, S.Integer(-1), b))),
        ("Add(-b,a)!", lambda S, a, b, c: U(S, S.Add, U(S, S.Mul, S.Integer(-1), b), a)),
        ("Add(a,-1.0*b)!", lambda S, a, b, c: U(S, S.Add, a, U(S, S.Mul, S.Float(-1.0), b))),
        ("Add(a,-b*c)!", lambda S, a, b, c: U(S, S.Add, a, U(S, S.Mul, S.Integer(-1), b, c))),
        ("Add(a,b*-1)!", lambda S, a, b, c: U(S, S.Add, a, U(S, S.Mul, b, S.Integer(-1)))),
        ("Add(a,-b,c)!", lambda S, a, b, c: U(S, S.Add, a, U(S, S.Mul, S.Integer(-1), b), c)),
        ("Mul(a,1/b)!", lambda S, a, b, c: U(S, S.Mul, a, U(S, S.Pow, b, S.Integer(-1)))),
        ("Mul(1/b,a)!", lambda S, a, b, c: U(S, S.Mul, U(S, S.Pow, b, S.Integer(-1)), a)),
        ("Mul(1/a,1/b)!", lambda S, a, b, c: U(S, S.Mul, U(S, S.Pow, a, S.Integer(-1)), U(S, S.Pow, b, S.Integer(-1)))),
        ("Mul(a,b**-2)!", lambda S, a, b, c: U(S, S.Mul, a, U(S, S.Pow, b, S.Integer(-2)))),
        ("Mul(a,1/b,c)!", lambda S, a, b, c: U(S, S.Mul, a, U(S, S.Pow, b, S.Integer(-1)), c)),
        ("Pow(a,-1)!", lambda S, a, b, c: U(S, S.Pow, a, S.Integer(-1))),
        ("Pow(a,1/2)!", lambda S, a, b, c: U(S, S.Pow, a, S.Rational(1, 2))),
        ("Pow(a,-1/2)!", lambda S, a, b, c: U(S, S.Pow, a, S.Rational(-1, 2))),
        ("Pow(a,0.5)!", lambda S, a, b, c: U(S, S.Pow, a, S.Float(0.5))),
        ("Pow(a,-0.5)!", lambda S, a, b, c: U(S, S.Pow, a, S.Float(-0.5))),
        # powers of powers that sympy leaves nested because merging the exponents is wrong off the positive axis
        ("sqrt(a**2)", lambda S, a, b, c: S.sqrt(a ** 2)),
        ("(a**2)**(3/2)", lambda S, a, b, c: (a ** 2) ** S.Rational(3, 2)),
        ("(a**4)**0.25", lambda S, a, b, c: (a ** 4) ** 0.25),
        ("(a**-2)**(1/2)", lambda S, a, b, c: (a ** -2) ** S.Rational(1, 2)),
        ("(a**2)**(1/3)*b", lambda S, a, b, c: (a ** 2) ** S.Rational(1, 3) * b),
        ("sqrt((a-b)**2)", lambda S, a, b, c: S.sqrt((a - b) ** 2)),
        ("a-b*c", lambda S, a, b, c: a - b * c),
        ("a-(b+c)", lambda S, a, b, c: a - (b + c)),
        ("(a-b)/(a+b)", lambda S, a, b, c: (a - b) / (a + b)),
        ("a/(b*c)", lambda S, a, b, c: a / (b * c)),
        ("a/b/c", lambda S, a, b, c: a / b / c),
        ("-a", lambda S, a, b, c: -a),
        ("-a-b", lambda S, a, b, c: -a - b),
        ("a-1", lambda S, a, b, c: a - 1),
        ("1-a", lambda S, a, b, c: 1 - a),
        ("a-1/2", lambda S, a, b, c: a - S.Rational(1, 2)),
        ("a*b**-2", lambda S, a, b, c: a * b ** -2),
        ("a**b", lambda S, a, b, c: a ** b),
        ("a**-b", lambda S, a, b, c: a ** -b),
        ("2**a", lambda S, a, b, c: 2 ** a),
        ("sqrt(a)/b", lambda S, a, b, c: S.sqrt(a) / b),
        ("1/sqrt(a)", lambda S, a, b, c: 1 / S.sqrt(a)),
        ("b/sqrt(a)", lambda S, a, b, c: b / S.sqrt(a)),
        ("I*a", lambda S, a, b, c: S.I * a),
        ("a-I", lambda S, a, b, c: a - S.I),
        ("a/I", lambda S, a, b, c: a / S.I),
        ("a-I*b", lambda S, a, b, c: a - S.I * b),
        ("exp(I*a)", lambda S, a, b, c: S.exp(S.I * a)),
        ("sin(a)/cos(b)", lambda S, a, b, c: S.sin(a) / S.cos(b)),
        ("tan(a-b)", lambda S, a, b, c: S.tan(a - b)),
        ("exp(-a)", lambda S, a, b, c: S.exp(-a)),
        ("exp(a/2)-1", lambda S, a, b, c: S.exp(a / 2) - 1),
        ("(1/3)*a", lambda S, a, b, c: S.Rational(1, 3) * a),
        ("a/3", lambda S, a, b, c: a / 3),
        ("a**(1/3)", lambda S, a, b, c: a ** S.Rational(1, 3)),
        ("a*1.0/b", lambda S, a, b, c: a * S.Float(1.0) / b),
    ]


def unsupported_atoms(rng, S, a, b):
    """(label, expression)"""
    f = S.Function("f")
    opts = [
        ("log", lambda: S.log(a)), ("Abs", lambda: S.Abs(a)), ("atan", lambda: S.atan(a)), ("pi", lambda: S.pi),
        ("E", lambda: S.E), ("oo", lambda: S.oo), ("-oo", lambda: -S.oo), ("nan", lambda: S.nan), ("zoo", lambda: S.zoo),
        ("Max", lambda: S.Max(a, b)), ("Min", lambda: S.Min(a, b)),
        ("Piecewise", lambda: S.Piecewise((a, b > 0), (b, True))),
        ("Derivative", lambda: S.Derivative(a ** 2, a) if isinstance(a, S.Symbol) else S.Derivative(S.Symbol("x") ** 2, S.Symbol("x"))),
        ("sinh", lambda: S.sinh(a)), ("conjugate", lambda: S.conjugate(a)), ("factorial", lambda: S.factorial(a)),
        ("Matrix", lambda: S.Matrix([[a, b]])), ("sin(I)", lambda: S.sin(S.I)), ("exp(1)", lambda: S.exp(1)),
        ("f(a)", lambda: f(a)), ("GoldenRatio", lambda: S.GoldenRatio), ("asin", lambda: S.asin(a)),
        ("floor", lambda: S.floor(a)), ("re", lambda: S.re(a)), ("erf", lambda: S.erf(a)), ("gamma", lambda: S.gamma(a)),
        ("Integral", lambda: S.Integral(S.Symbol("x"), S.Symbol("x"))), ("true", lambda: S.true),
        ("Eq", lambda: S.Eq(a, b)), ("cot", lambda: S.cot(a)), ("sec", lambda: S.sec(a)), ("acos", lambda: S.acos(a)),
        ("undefined:sin", lambda: S.Function("sin")(a)), ("undefined:add", lambda: S.Function("add")(a, b)),
        ("undefined:sqrt", lambda: S.Function("sqrt")(a)), ("undefined:div", lambda: S.Function("div")(a, b)),
    ]
    label, mk = rng.choice(opts)
    try:
        return label, mk()
    except Exception:  # sympy refuses this operand (e.g. Max of a non-real number)
        return "log", S.log(S.Symbol("x"))


# ============================================================================ histories
# The neutral tree exists to be translated into more than one dialect.  What the sympy dialect makes of a
# tree must not depend on what the same process translated before: the same / an equal / a nearly equal
# tree with another dialect (numeric evaluation at fixed symbol values, a printer, a variant of the sympy
# dialect that shares some of its parts), or a nearly equal tree with the sympy dialect itself.
def other_dialects(rng, S, EX, SD, names):
    """[(label, dialect)] - dialects a user of the neutral tree could define; every one differs from the
    sympy dialect SD in at least one of its three parts and defines (unless labelled +/-) the same
    function names"""
    import cmath
    import operator

    fnames = list(SD.known_functions)
    bind = {n: complex(rng.uniform(-2, 2), 0) if rng.random() < 0.8 else complex(rng.uniform(-2, 2), rng.uniform(-1, 1))
            for n in names}

    def lookup(sym):
        return bind.get(sym.name, 0.75)

    def chain(op):
        def f(*args):
            acc = args[0]
            for a in args[1:]:
                acc = op(acc, a)
            return acc
        return f

    numeric = {"add": chain(operator.add), "mul": chain(operator.mul), "sub": operator.sub, "div": operator.truediv,
               "pow": operator.pow, "sqrt": cmath.sqrt, "sin": cmath.sin, "cos": cmath.cos, "tan": cmath.tan,
               "exp": cmath.exp}

    def printer(name):
        return lambda *args: f"{name}({', '.join(map(str, args))})"

    def table(kind):
        if kind == "numeric":
            return {n: numeric.get(n, lambda *a: 0.125) for n in fnames}
        if kind == "printer":
            return {n: printer(n) for n in fnames}
        # the sympy callables, permuted: same names, same kind of results, other meaning
        tab = dict(SD.known_functions)
        for a, b in (("sin", "cos"), ("add", "mul"), ("tan", "exp")):
            if a in tab and b in tab:
                tab[a], tab[b] = tab[b], tab[a]
        if "sub" in tab:
            tab["sub"] = lambda x, y, f=SD.known_functions["sub"]: f(y, x)
        if "div" in tab:
            tab["div"] = lambda x, y, f=SD.known_functions["div"]: f(y, x)
        return tab

    shift = S.Rational(3, 2)
    out = []
    for _ in range(rng.choice([1, 1, 2, 3])):
        kind = rng.choice(["numeric", "numeric", "printer", "renamed-symbols", "bound-symbols", "other-numbers",
                           "permuted-functions", "numeric-symbols-only"])
        if kind == "numeric":
            d = EX.ExpressionDialect(symbol_factory=lookup, number_factory=lambda n: n, known_functions=table("numeric"))
        elif kind == "printer":
            d = EX.ExpressionDialect(symbol_factory=lambda sym: sym.name, number_factory=repr, known_functions=table("printer"))
        elif kind == "renamed-symbols":  # shares number factory and function table (the very dict) with SD
            d = SD._replace(symbol_factory=lambda sym: S.Symbol(sym.name + "_r"))
        elif kind == "bound-symbols":  # substitution through the dialect
            d = SD._replace(symbol_factory=lambda sym: S.Float(lookup(sym).real))
        elif kind == "other-numbers":  # shares symbol factory and function table with SD
            d = SD._replace(number_factory=lambda n: n + shift)
        elif kind == "permuted-functions":  # shares both factories with SD
            d = SD._replace(known_functions=table("permuted"))
        else:
            d = EX.ExpressionDialect(symbol_factory=lookup, number_factory=SD.number_factory, known_functions=dict(SD.known_functions))
        r = rng.random()
        if r < 0.15 and not d.known_functions is SD.known_functions:
            kf = dict(d.known_functions)
            kf["log"] = (lambda *a: 0.5)
            d = d._replace(known_functions=kf)
            kind += "+log"
        elif r < 0.25 and "tan" in d.known_functions:
            kf = dict(d.known_functions)
            del kf["tan"]
            d = d._replace(known_functions=kf)
            kind += "-tan"
        out.append((kind, d))
    return out


def near_variants(rng, S, e, n):
    """[(label, expression)]: n expressions that differ from ``e`` in one respect only (a symbol, a number,
    the order of two symbols, one more node on top, a symbol that prints like the whole expression)"""
    out = []
    syms = sorted(getattr(e, "free_symbols", ()), key=lambda x: x.name)
    nums = sorted({a for a in _preorder(e) if isinstance(a, (S.Integer, S.Rational, S.Float))}, key=S.srepr) \
        if isinstance(e, S.Basic) else []
    for _ in range(n):
        kind = rng.choice(["same", "rename", "rename", "swap", "number", "number", "number", "wrap", "wrap", "printname"])
        v = None
        if kind == "same":
            v = e
        elif kind == "rename" and syms:
            old = rng.choice(syms)
            new = S.Symbol(rng.choice([old.name + "_1", old.name + "0", old.name.upper(), "w"] + NAMES[:8]))
            v = e.xreplace({old: new})
        elif kind == "swap" and len(syms) >= 2:
            a, b = rng.sample(syms, 2)
            v = e.xreplace({a: b, b: a})
        elif kind == "number" and nums:
            old = rng.choice(nums)
            # includes numbers that are equal / hash equal as Python objects: 2 and 2.0, -1 and -2 (hash(-1) == hash(-2))
            if old == -1:
                new = rng.choice([S.Integer(-2), S.Float(-1.0), S.Integer(1)])
            elif old == -2:
                new = rng.choice([S.Integer(-1), S.Float(-2.0), S.Integer(2)])
            else:
                new = rng.choice([old + 1, -old, S.Float(float(old)) if not isinstance(old, S.Float) else old * 2,
                                  old / 2, S.Integer(-2), S.Integer(3)])
            v = e.xreplace({old: new})
        elif kind == "wrap":
            x = rng.choice(syms) if syms and rng.random() < 0.5 else rand_leaf(rng)
            v = rng.choice([lambda: e + x, lambda: x - e, lambda: e - x, lambda: e / x, lambda: x / e, lambda: -e,
                            lambda: S.sin(e), lambda: S.cos(e), lambda: S.exp(e), lambda: S.sqrt(e), lambda: e ** 2,
                            lambda: 2 * e, lambda: e * x, lambda: 1 / e])()
        elif kind == "printname":
            try:
                v = S.Symbol(str(e))
            except Exception:
                v = None
        if v is None:
            kind, v = "same", e
        out.append((kind, v))
    return out


# ============================================================================ cases
def _features(e):
    """structural only (no sympy assumption queries: they can raise on unevaluated trees such as 1/0)"""
    import sympy as S

    def real_number(x):
        return isinstance(x, (S.Integer, S.Rational, S.Float))

    feats = set()
    for n in _preorder(e):
        if isinstance(n, S.Pow) and real_number(n.args[1]):
            x = float(n.args[1])
            if x < 0:
                feats.add("negpow")
            if abs(x) == 0.5:
                feats.add("halfpow")
        if isinstance(n, S.Add):
            for a in n.args:
                if isinstance(a, S.Mul) and a.args and real_number(a.args[0]) and float(a.args[0]) < 0:
                    feats.add("negterm")
    return feats


def _evaluated_form_unsupported(e):
    """node types outside the grammar that appear once sympy evaluates an unevaluated tree (the
    library's own `expr * (-1)` re-evaluates sub-trees, e.g. 1/exp(-1) -> E)"""
    try:
        return unsupported_nodes(e.doit())
    except Exception as ex:
        return [f"doit raised {type(ex).__name__}"]


def _roundtrip(ctx, e, label):
    """drive the pipeline on one expression and judge the round trip"""
    from orquestra.quantum.circuits.symbolic.sympy_expressions import SYMPY_DIALECT, expression_from_sympy
    from orquestra.quantum.circuits.symbolic.translations import translate_expression

    _declare(e)
    bad = unsupported_nodes(e)
    stage = "expression_from_sympy"
    try:
        t = expression_from_sympy(e)
        stage = "translate_expression"
        back = translate_expression(t, SYMPY_DIALECT)
    except Exception as ex:  # judged: refusal
        _judge_refusal(ctx, e, ex, stage, label, bad)
        return None
    return _judge_back(ctx, e, back, label, bad)


def _judge_refusal(ctx, e, ex, stage, label, bad):
    """the pipeline raised ``ex`` at ``stage`` for the sympy expression ``e``"""
    if _sympy_internal(ex):
        ctx.mon.note(f"refused:sympy-internal-error:{type(ex).__name__}")
        return
    if bad:
        ctx.check("unsupported-refused", True)
        ctx.mon.note(f"refused-at:{stage}")
        return
    try:
        ref = reference_values(ev_sympy, e)
    except Unknown:
        ref = []
    if not any(r[0] == "ok" for r in ref) and not exact_defined(ex_sympy, e):
        ctx.mon.note("refused:undefined-everywhere")
        return
    later = _evaluated_form_unsupported(e)
    if later:
        # every node of the given (unevaluated) tree is supported, but evaluating it yields an
        # unsupported one: judged like sympy's own rewriting, on the tree it produces
        ctx.mon.note("refused:evaluation-introduces-unsupported-node")
        return
    ctx.check("supported-not-refused", False, f"{label}: {srepr_short(e)} refused at {stage}: {ex!r}")


def _judge_back(ctx, e, back, label, bad, check="roundtrip-value"):
    """``back`` is what the sympy dialect made of the tree of the sympy expression ``e``"""
    if not bad:
        ctx.check("supported-not-refused", True)
        xverdict, xdetail = exact_verdict(ex_sympy, e, ex_sympy, back)
        if xverdict != "noverdict":
            ctx.check("exact-integer-value", xverdict == "same",
                      lambda: f"{label}: {srepr_short(e)} came back as {srepr_short(back)}: {xdetail}")
            if xverdict == "differ":
                return back
    try:
        ref = reference_values(ev_sympy, e)
        verdict, detail = compare_values(ref, ev_sympy, back)
    except Undefined as u:
        ctx.mon.note(f"roundtrip:undefined-function-translated:{u}")
        return back
    except Unknown as u:
        ctx.mon.note(f"roundtrip:not-valued:{u}")
        return back
    if bad:
        # translated although it contains an unsupported node: only a different value refutes
        ctx.check("unsupported-refused", verdict != "differ",
                  lambda: f"{label}: {srepr_short(e)} with {bad} translated to {srepr_short(back)}: {detail}")
        ctx.mon.note(f"unsupported-passed:{verdict}")
        return back
    if verdict == "noverdict":
        ctx.mon.note("roundtrip:noverdict")
        return back
    ctx.check(check, verdict == "same",
              lambda: f"{label}: {srepr_short(e)} came back as {srepr_short(back)}: {detail}")
    return back


def run_case(ctx):
    try:
        _run_case(ctx)
    except _GeneratorFailed as g:
        # sympy itself failed while the input expression was being built (RecursionError, polys errors on
        # exotic unevaluated trees, ...): nothing of the library was exercised; counted, not judged
        ctx.mon.note(f"generator:sympy-failed:{g}")
        if ctx.desc is None:
            ctx.describe(f"{ctx.cls} generation failed inside sympy ({g})", False)


class _GeneratorFailed(Exception):
    pass


def _gen(fn, *args, **kwargs):
    try:
        return fn(*args, **kwargs)
    except Exception as ex:
        raise _GeneratorFailed(type(ex).__name__)


def _run_case(ctx):
    import sympy as S

    global _SALT
    rng = ctx.rng
    cls = ctx.cls
    _SALT = rng.randrange(1 << 30)
    _POS.clear()
    _REF_MEMO.clear()
    _KEYS["natural_key"].clear()
    _KEYS["natural_key_revlex"].clear()
    maxdepth = 6 if ctx.quick else 8

    if cls == "special":
        shapes = special_shapes()
        label, mk = shapes[ctx.index % len(shapes)]
        lvl = rng.choice([0, 0, 1, 2])
        a, b, c = (_gen(rand_tree, rng, lvl) if lvl else rand_symbol(rng) for _ in range(3))
        if lvl == 0 and rng.random() < 0.25:
            b = rand_number(rng, allow_zero=False)
        if getattr(b, "is_number", False) and _magnitude(S, b) > 4:
            b = rand_symbol(rng)
        if getattr(a, "is_number", False) and _magnitude(S, a) > 40:
            a = rand_symbol(rng)
        e = _gen(mk, S, a, b, c)
        ctx.describe(f"special {label} {srepr_short(e)}", bool(getattr(e, "free_symbols", None)) and size_of(e) >= 3)
        _roundtrip(ctx, e, label)
        return

    if cls in ("random", "unevaluated", "numeric"):
        # unevaluated trees mostly stress sympy's own re-evaluation once they get deep: capped at 5
        depth = rng.randint(2, min(maxdepth, 5) if cls == "unevaluated" else maxdepth)
        e = _gen(rand_tree, rng, depth, evaluate=(cls != "unevaluated") or rng.random() < 0.1, symbols=(cls != "numeric"))
        try:
            feats = _features(e) if isinstance(e, S.Basic) else set()
        except Exception:
            feats = set()
        nontrivial = size_of(e) >= 6 and bool(feats) and (cls == "numeric" or bool(e.free_symbols))
        ctx.describe(f"{cls} d={depth} {srepr_short(e)}", nontrivial)
        _roundtrip(ctx, e, cls)
        return

    if cls == "unsupported":
        a, b = rand_symbol(rng), rand_symbol(rng)
        if rng.random() < 0.3:
            a = _gen(rand_tree, rng, 1)
        label, u = unsupported_atoms(rng, S, a, b)
        embed = rng.choice(["alone", "sum", "product", "arg", "power", "deep"])
        x = _gen(rand_tree, rng, 2)
        try:
            if embed == "alone" or not isinstance(u, S.Expr):
                e = u
                embed = "alone"
            elif embed == "sum":
                e = x + u
            elif embed == "product":
                e = x * u
            elif embed == "arg":
                e = rng.choice([S.sin, S.cos, S.exp])(u)
            elif embed == "power":
                e = x ** u if rng.random() < 0.5 else u ** 2
            else:
                e = S.sin(x - u) / (1 + x ** 2)
        except Exception:
            e = u
            embed = "alone"
        bad = unsupported_nodes(e)
        ctx.describe(f"unsupported {label} {embed} {srepr_short(e)} nodes={sorted(set(bad))}", bool(bad) and embed != "alone")
        if not bad:
            ctx.mon.note("unsupported:sympy-rewrote-to-supported")
        _roundtrip(ctx, e, f"unsupported {label}")
        return

    if cls == "tuple":
        from orquestra.quantum.circuits.symbolic.sympy_expressions import SYMPY_DIALECT, expression_from_sympy
        from orquestra.quantum.circuits.symbolic.translations import translate_tuple

        n = rng.choice([0, 1, 2, 3, 5])
        es = tuple(_gen(rand_tree, rng, rng.randint(0, 3)) for _ in range(n))
        ctx.describe(f"tuple {[srepr_short(e, 120) for e in es]!r}"[:600], n >= 2 and any(size_of(e) >= 4 for e in es))
        bad = [b for e in es for b in unsupported_nodes(e)]
        for e in es:
            _declare(e)
        try:
            ts = expression_from_sympy(es)
            ok = isinstance(ts, tuple) and len(ts) == n
            back = translate_tuple(ts, SYMPY_DIALECT) if ok else None
        except Exception as ex:
            defined = False
            if _sympy_internal(ex):
                ctx.mon.note(f"tuple:sympy-internal-error:{type(ex).__name__}")
                return
            if not bad:
                for e in es:
                    try:
                        defined = defined or any(r[0] == "ok" for r in reference_values(ev_sympy, e))
                    except Unknown:
                        pass
            if bad or not defined:
                ctx.mon.note("tuple:refused")
            else:
                ctx.check("tuple-roundtrip", False, f"tuple of supported expressions refused: {ex!r}")
            return
        ok = ok and isinstance(back, tuple) and len(back) == n
        why = f"{n} expressions -> {ts!r} -> {back!r}"
        if ok:
            for i, (e, r) in enumerate(zip(es, back)):
                try:
                    verdict, detail = compare_values(reference_values(ev_sympy, e), ev_sympy, r)
                except Unknown:
                    continue
                if verdict == "differ":
                    ok = False
                    why = f"element {i}: {srepr_short(e)} came back as {srepr_short(r)}: {detail}"
                    break
        ctx.check("tuple-roundtrip", ok, why)
        return

    if cls == "history":
        from orquestra.quantum.circuits.symbolic.sympy_expressions import SYMPY_DIALECT, expression_from_sympy
        from orquestra.quantum.circuits.symbolic.translations import translate_expression
        EX = _LIB["EX"]

        lvl = rng.choice([1, 2, 2, 3])
        base = _gen(rand_tree, rng, lvl)
        if not getattr(base, "free_symbols", None) or size_of(base) < 3:
            # the shapes the special cases are written for, over plain symbols
            label, mk = rng.choice(special_shapes())
            base = _gen(mk, S, *rng.sample([S.Symbol(n) for n in NAMES[:6]], 3))
        variants = [("base", base)] + _gen(near_variants, rng, S, base, rng.choice([1, 2, 2, 3]))
        names = sorted({n for _, v in variants for n in _names_of(v)})
        dialects = other_dialects(rng, S, EX, SYMPY_DIALECT, names)
        # the history: (variant, dialect) steps in random order; every variant is translated with the sympy
        # dialect at least once after something else has been translated, the first one once more at the end
        steps = []
        for i in range(len(variants)):
            steps += [(i, rng.randrange(len(dialects))) for _ in range(rng.choice([1, 1, 2]))]
            steps += [(i, None)] * rng.choice([0, 1])
        rng.shuffle(steps)
        order = list(range(len(variants)))
        rng.shuffle(order)
        steps += [(i, None) for i in order] + [(0, None)]
        ctx.describe(f"history {[(k, srepr_short(v, 150)) for k, v in variants]!r} dialects={[k for k, _ in dialects]} "
                     f"steps={[(i, 'sympy' if d is None else d) for i, d in steps]}"[:600],
                     len({srepr_short(v, 400) for _, v in variants}) >= 2 and bool(names)
                     and any(d is not None for _, d in steps))
        trees = {}
        for i, (kind, v) in enumerate(variants):
            _declare(v)
            try:
                trees[i] = expression_from_sympy(v)
            except Exception as ex:
                _judge_refusal(ctx, v, ex, "expression_from_sympy", f"history {kind}", unsupported_nodes(v))
        # an equal tree that is a distinct object (converted a second time)
        fresh = {}
        for i in list(trees):
            if rng.random() < 0.5:
                try:
                    fresh[i] = expression_from_sympy(variants[i][1])
                except Exception:
                    pass
        before = False
        for i, d in steps:
            if i not in trees:
                continue
            t = fresh[i] if i in fresh and rng.random() < 0.5 else trees[i]
            kind, v = variants[i]
            if d is not None:
                try:
                    translate_expression(t, dialects[d][1])
                    ctx.mon.note(f"history:other-dialect:{dialects[d][0]}")
                except Exception as ex:  # not judged: the property speaks about the sympy dialect
                    ctx.mon.note(f"history:other-dialect-raised:{type(ex).__name__}")
                before = True
                continue
            bad = unsupported_nodes(v)
            try:
                back = translate_expression(t, SYMPY_DIALECT)
            except Exception as ex:
                _judge_refusal(ctx, v, ex, "translate_expression", f"history {kind}", bad)
                continue
            _judge_back(ctx, v, back, f"history {kind} (after earlier translations)", bad,
                        check="history-value" if before else "roundtrip-value")
            before = True
        return

    if cls == "manyargs":
        # sums and products of MANY operands (17 .. 130 direct arguments of one Add / Mul node; every count between two
        # powers of two behaves alike for a pairwise reduction, the powers of two themselves do not): each operand a
        # different symbol with a small coefficient, so that a dropped or duplicated operand changes the value
        n = rng.choice([17, 18, 19, 23, 24, 31, 32, 33, 40, 47, 48, 63, 64, 65, 96, 100, 127, 128, 129])
        kind = rng.choice(["add", "add", "mul", "add-of-mul", "mul-of-add"])
        syms = [S.Symbol(f"{rng.choice(['v', 'w', 'q'])}{i}") for i in range(n)]
        coef = [rng.choice([1, 1, 2, 3, -1, -2, 5, S.Rational(1, 2), 0.25]) for _ in range(n)]
        if kind == "add":
            e = _gen(lambda: S.Add(*[c * v for c, v in zip(coef, syms)]))
        elif kind == "mul":
            e = _gen(lambda: S.Mul(*syms[: min(n, 65)]))
        elif kind == "add-of-mul":
            e = _gen(lambda: S.Add(*[c * v * syms[(i + 1) % n] for i, (c, v) in enumerate(zip(coef, syms))]))
        else:
            m = min(n, 40)
            e = _gen(lambda: S.Mul(*[(v + c) for c, v in zip(coef[:m], syms[:m])]))
        top = len(e.args) if isinstance(e, (S.Add, S.Mul)) else 0
        ctx.mon.note(f"manyargs:top-level-operands:{'<=16' if top <= 16 else '17-32' if top <= 32 else '33-64' if top <= 64 else '>64'}")
        ctx.describe(f"manyargs {kind} n={n} {srepr_short(e, 160)}", top > 16)
        _roundtrip(ctx, e, f"manyargs {kind}")
        return

    if cls == "symbolforms":
        # one name in several of the forms sympy hands symbols out in (plain, Dummy, Wild, with an underscore, with
        # assumptions, numbered, from cse / Lambda), all inside ONE expression: symbols that print differently are
        # different symbols and have to come back as different symbols - they get independent values here
        nm = rng.choice(NAMES[:8])
        base = S.Symbol(nm)
        rel = [symbol_form(rng, S, nm) for _ in range(rng.choice([1, 1, 2, 3]))]
        syms = [base] + rel
        rng.shuffle(syms)
        shapes = special_shapes()
        pick = rng.random()
        if pick < 0.45:
            label, mk = shapes[ctx.index % len(shapes)]
            a, b, c = (syms + [rand_symbol(rng), rand_symbol(rng)])[:3]
            e = _gen(mk, S, a, b, c)
        elif pick < 0.8:
            label = "combination"
            ks = [rng.choice([2, 3, -1, S.Rational(1, 2), 5, -4]) for _ in syms]
            e = _gen(lambda: rng.choice([
                lambda: S.Add(*[k * v for k, v in zip(ks, syms)]),
                lambda: S.Mul(*[v ** (1 + i) for i, v in enumerate(syms)]),
                lambda: syms[0] / syms[-1] + S.sin(syms[0] - syms[-1]),
                lambda: (syms[0] - syms[-1]) * S.exp(syms[-1]) + syms[0] ** syms[-1],
                lambda: S.cos(syms[0]) * syms[-1] - S.cos(syms[-1]) * syms[0],
            ])())
        else:
            label = "tree"
            t0 = _gen(rand_tree, rng, rng.randint(2, 4))
            fs = sorted(getattr(t0, "free_symbols", ()), key=_pname)
            e = t0.xreplace({old: rng.choice(syms) for old in fs}) if fs else S.Add(*syms)
            e = e + syms[0] - 2 * syms[-1]
        printed = {_pname(v) for v in getattr(e, "free_symbols", ())}
        plain_names = {getattr(v, "name", "") for v in getattr(e, "free_symbols", ())}
        ctx.mon.note(f"symbolforms:printed-names-{min(len(printed), 4)}")
        for v in getattr(e, "free_symbols", ()):
            ctx.mon.note("symbolforms:type:" + type(v).__name__)
        ctx.describe(f"symbolforms {label} {srepr_short(e)}", len(printed) >= 2 and len(plain_names) < len(printed))
        _roundtrip(ctx, e, f"symbolforms {label}")
        if ctx.index % 3 == 0 and isinstance(e, S.Basic):
            from orquestra.quantum.circuits.symbolic.sympy_expressions import SYMPY_DIALECT, expression_from_sympy
            from orquestra.quantum.circuits.symbolic.translations import translate_tuple

            parts = tuple(sorted(getattr(e, "free_symbols", ()), key=_pname)) + (e,)
            try:
                back = translate_tuple(tuple(expression_from_sympy(p) for p in parts), SYMPY_DIALECT)
            except Exception as ex:
                _judge_refusal(ctx, e, ex, "translate_tuple", f"symbolforms {label} tuple", unsupported_nodes(e))
            else:
                ok = len(back) == len(parts)
                ctx.check("tuple-roundtrip", ok, lambda: f"symbolforms tuple of {len(parts)} came back with {len(back)} entries")
                if ok:
                    for p_in, p_out in zip(parts, back):
                        _judge_back(ctx, p_in, p_out, f"symbolforms {label} tuple", unsupported_nodes(p_in), check="tuple-roundtrip")
        return

    if cls == "integers":
        from orquestra.quantum.circuits.symbolic.sympy_expressions import SYMPY_DIALECT, expression_from_sympy
        from orquestra.quantum.circuits.symbolic.translations import translate_tuple

        depth = rng.randint(0, 4)
        evaluate = rng.random() < 0.7
        how = rng.choice(["plain"] * 13 + ["tuple"] * 4 + ["inside"] * 3)
        n = 2 if how == "tuple" else 1
        es = [_gen(rand_integer_tree, rng, depth, evaluate) for _ in range(n)]
        if not any(isinstance(a, S.Integer) and abs(int(a)) > 2**31 for e in es for a in _preorder(e)):
            # sympy folded the big integers away (x - x, n**0): put one back
            k = S.Integer(rand_big_integer(rng))
            es[0] = _gen(rng.choice([lambda: es[0] + k, lambda: k * rand_symbol(rng) + es[0], lambda: k - es[0]]))
        if how == "inside":
            # the integer expression below a node whose value is not exact: the nested conversions are judged
            e0 = es[0]
            es[0] = _gen(rng.choice([lambda: S.sin(e0), lambda: S.cos(e0), lambda: S.exp(-e0 ** 2), lambda: S.sqrt(e0),
                                     lambda: S.Float(0.5) * e0 + S.Rational(1, 3), lambda: e0 ** S.Rational(1, 3)]))
        ints = {int(a) for e in es for a in _preorder(e) if isinstance(a, S.Integer)}
        inexact_as_double = sorted(i for i in ints if not_a_double(i))
        bits = max([abs(i).bit_length() for i in ints] or [0])
        ctx.describe(f"integers {how} d={depth} ev={evaluate} bits={bits} {[srepr_short(e, 400) for e in es]!r}"[:900],
                     bool(inexact_as_double) and any(getattr(e, "free_symbols", None) for e in es))
        ctx.mon.note(f"integers:bits>{max(b for b in (-1, 31, 53, 63, 64, 128, 1023) if bits > b)}")
        if how != "tuple":
            _roundtrip(ctx, es[0], f"integers {how}")
            return
        for e in es:
            _declare(e)
        try:
            ts = expression_from_sympy(tuple(es))
            back = translate_tuple(ts, SYMPY_DIALECT)
        except Exception as ex:
            _judge_refusal(ctx, S.Add(*es, evaluate=False), ex, "tuple of integer expressions", "integers tuple", [])
            return
        ok = isinstance(back, tuple) and len(back) == n
        ctx.check("tuple-roundtrip", ok, lambda: f"{n} expressions -> {ts!r} -> {back!r}")
        if ok:
            for e, r in zip(es, back):
                _judge_back(ctx, e, r, "integers tuple", [])
        return

    if cls == "keys":
        from orquestra.quantum.circuits.symbolic import natural_key, natural_key_revlex
        EX = _LIB["EX"]

        groups = rng.choice([1, 1, 2, 2, 3])
        prefix = rng.choice(["beta", "theta", "x", "a", "gamma_", "", "q"])
        seps = [rng.choice(["_", "", "_", "x", "-", "__", "."]) if prefix else ""]
        seps += [rng.choice(["_", "_", "x", "-", "__", ".", "_k"]) for _ in range(groups - 1)]
        suffix = rng.choice(["", "", "", "_end", "b"])

        def mk_int():
            r = rng.random()
            if r < 0.35:
                return str(rng.randint(0, 12))
            if r < 0.6:
                return str(rng.choice([9, 10, 11, 19, 20, 99, 100, 101, 999, 1000]))
            if r < 0.8:
                return str(rng.randint(0, 10**6))
            if r < 0.9:
                return "0" * rng.randint(1, 2) + str(rng.randint(0, 20))
            return str(rng.choice([2**31, 2**63, 10**20, 10**20 + 1, 2**53, 2**64 + 1, 10**30]))
        names = []
        for _ in range(rng.randint(3, 9)):
            parts = [mk_int() for g in range(groups)]
            names.append(prefix + "".join(seps[g] + parts[g] for g in range(groups)) + suffix)
            if any(int(q) >= 2**53 for q in parts):
                # the neighbour of an integer that no double tells from it
                g = rng.choice([g for g in range(groups) if int(parts[g]) >= 2**53])
                parts[g] = str(int(parts[g]) + rng.choice([1, -1, 2]))
                names.append(prefix + "".join(seps[g] + parts[g] for g in range(groups)) + suffix)
        names = list(dict.fromkeys(names))
        if rng.random() < 0.3:
            names += [rng.choice(["alpha", "beta", "x", "beta_x", "10", "z9z"])]
        kind = rng.choice(["sympy", "native"])
        syms = [S.Symbol(n) if kind == "sympy" else EX.Symbol(n) for n in names]
        digit_counts = {len(str(i)) for n in names for i in ints_of(n)}
        ctx.describe(f"keys {kind} {names!r}", len(names) >= 3 and len(digit_counts) >= 2)
        for keyfn, rev in ((natural_key, False), (natural_key_revlex, True)):
            order = list(syms)
            rng.shuffle(order)
            try:
                got = [s.name for s in sorted(order, key=keyfn)]
            except Exception as ex:
                ctx.check("key-sort", False, f"sorting {names!r} with {keyfn.__name__} raised {ex!r}")
                continue
            # within one skeleton the names must appear in the order of their integers
            bad = None
            for sk in {skeleton(n) for n in got}:
                fam = [n for n in got if skeleton(n) == sk]
                vals = [tuple(reversed(ints_of(n))) if rev else ints_of(n) for n in fam]
                if any(vals[i] > vals[i + 1] for i in range(len(vals) - 1)):
                    bad = (fam, vals)
                    break
            ctx.check("key-sort", bad is None,
                      lambda: f"{keyfn.__name__}: sorted order {got!r}; family {bad[0]!r} has integers {bad[1]!r}")
        # the key factory for "<name>_<index>" symbols with a fixed order of names: indices are compared
        # numerically first, names by their position in the given list
        from orquestra.quantum.circuits.symbolic._sorting import natural_key_fixed_names_order

        pool = ["gamma", "beta", "theta", "x", "alpha"]
        rng.shuffle(pool)
        order_names = pool[: rng.randint(1, 4)]
        idx = [int(mk_int()) for _ in range(rng.randint(2, 6))]
        fn_names = list(dict.fromkeys(f"{nm}_{i}" for i in idx for nm in order_names if rng.random() < 0.8))
        if len(fn_names) >= 2:
            fsyms = [S.Symbol(n) if kind == "sympy" else EX.Symbol(n) for n in fn_names]
            # a history of factories in one case: the same names in another order (and the first order again)
            # must give the order asked for, not the one of an earlier factory
            orders = [list(order_names)]
            if len(order_names) >= 2:
                other = list(order_names)
                while other == order_names:
                    rng.shuffle(other)
                orders += [other] + ([list(order_names)] if rng.random() < 0.5 else [])
            for k, names_order in enumerate(orders):
                rng.shuffle(fsyms)
                try:
                    got = [s.name for s in sorted(fsyms, key=natural_key_fixed_names_order(names_order))]
                except Exception as ex:
                    ctx.check("key-sort", False, f"sorting {fn_names!r} with natural_key_fixed_names_order({names_order!r}) raised {ex!r}")
                    continue
                pairs = [(int(n.rsplit("_", 1)[1]), names_order.index(n.rsplit("_", 1)[0])) for n in got]
                ctx.check("key-sort", all(pairs[i] <= pairs[i + 1] for i in range(len(pairs) - 1)),
                          lambda: f"natural_key_fixed_names_order({names_order!r}) (factories made before in this case: "
                                  f"{orders[:k]!r}): sorted order {got!r} is not by (numeric index, name position)")
        return
    raise ValueError(cls)
