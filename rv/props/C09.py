"""C09 - operator <-> matrix conversions agree with the operator's definition."""
import cmath
import math

import numpy as np

from ..gen import pauliops as G
from ..ref import linalg as L
from ..ref import paulidense as D
from ..ref import pauliwide as PW

ID = "C09"
LEVEL = "exploration"
LEVEL_NOTE = (
    "trusted: rv/ref/paulidense.py + rv/ref/pauli.py (dense Pauli matrices by bit arithmetic, qubit 0 = most "
    "significant bit; cross-checked against each other at start-up), rv/ref/linalg.bit_reversal_perm, numpy; "
    "tolerance 1e-12*scale, plus 1e-8 per coefficient that the library may drop where a result passes through "
    "PauliSum simplification (hermitian_conjugated, reverse_qubit_order, get_pauliop_from_matrix); Hermiticity "
    "is judged only for exactly Hermitian operators or anti-Hermitian part >= 1e-3; registers <= 7 qubits, "
    "expanded matrices <= 4 qubits"
)
RULE = (
    "seeded generator by input class: sparse = term/sum (gaps up to index 6, constants, complex and zero "
    "coefficients, Y-heavy strings, duplicates, empty sum) converted on n = width..width+3 (<=7) qubits or with n "
    "omitted, and n < width (rejected); hermitian = conjugate / Hermiticity test of exactly Hermitian, clearly "
    "non-Hermitian and mixed operators; from_matrix = 2^n x 2^n matrices, n = 1-3 quick / 1-4 thorough (random "
    "complex, real, Hermitian, single Pauli strings, sparse/diagonal, zero; ndarray or list of lists), expanded and "
    "converted back; reverse = single and double qubit-order reversal on n >= width; expectation = operator, "
    "register and random normalised state through get_expectation_value (both orders) and expectation (row vector, "
    "column vector, density matrix); mutation = histories on one receiver: a public coefficient / the term list of "
    "the operator reassigned or edited, an object returned by an earlier conversion edited in place, the matrix / "
    "state array / wavefunction passed again after an in-place edit, with one, a few or all conversions asked "
    "before and after; spelling = numpy scalars as coefficients and as n, term tuples, the identical term object "
    "repeated, coefficients 1e-11..1e-9 and 1e6..1e12 (sparse matrix and direct expectation only), csr / coo / "
    "LinearOperator operands and strided states for expectation; matrices for the expansion also as tuples, lists "
    "of row arrays, Fortran-ordered and strided arrays. non-trivial = the operator/matrix has a Y component or a gap between acted-on "
    "qubits, or the register is wider than the operator; class wide: registers of 8 - 12 (13 thorough) qubits, 1 - 3 "
    "terms whose qubits straddle position 8, built from dictionaries and strings in every factor order; the sparse "
    "matrix is judged by its action on 3 random and 2 basis probe vectors against a matrix-free reference "
    "(rv.ref.pauliwide), the expectation value against psi^dagger (M psi) computed the same way; "
    "distinct = distinct canonical case strings"
)
ASSUMPTIONS = [
    "oracle = dense matrices filled by bit arithmetic from the definition (qubit 0 leftmost tensor factor), plain numpy quadratic forms",
    "1x1 matrices are not given to get_pauliop_from_matrix (the function documents n-qubit input and raises loudly)",
    "is_hermitian is judged for simplified operators only and outside the tolerance grey zone (anti-Hermitian coefficient part in (1e-10, 1e-3) gives no verdict)",
    "ndarray / sparse-matrix inputs of hermitian_conjugated and is_hermitian are not part of the property (counted out of domain)",
    "mutation histories use public attributes only (PauliTerm.coefficient, PauliSum.terms, item assignment on Wavefunction, in-place edits of arrays / sparse matrices the caller owns); every call is judged against the operand as it is when the call returns",
    "coefficients that are not plain or numpy numbers (Fraction, sympy numbers) and Python ints beyond 2**63 are not generated: the sparse conversion rejects them loudly (scipy object dtype)",
]
DECIDING = [
    "get_sparse_operator", "hermitian_conjugated", "is_hermitian", "get_pauliop_from_matrix",
    "reverse_qubit_order", "get_expectation_value", "expectation", "reverse-twice-identity", "matrix-roundtrip",
    "hermitian_conjugated:matrix", "is_hermitian:matrix",
]
BRANCHES = ["get_sparse_operator:gap-identity", "get_sparse_operator:trailing-identity",
            "expectation:density-matrix", "expectation:row-vector", "expectation:column-vector"]
BUDGET = {"quick": (4, 20, 1800), "thorough": (16, 150, 100000)}

MAXN = 7
WIDE_MAXN = 13  # beyond MAXN the sparse matrix is judged by its action on probe vectors (rv.ref.pauliwide)
_PROBE_RNG = np.random.default_rng(20260930)
_LIB = None


def classes(tier):
    return ["sparse", "hermitian", "from_matrix", "reverse", "expectation", "history", "mutation", "spelling", "wide"]


# ----------------------------------------------------------------------------- oracle helpers
def _lib():
    global _LIB
    if _LIB is None:
        from orquestra.quantum.operators import _pauli_operators as PO

        _LIB = (PO.PauliTerm, PO.PauliSum)
    return _LIB


def _terms(op):
    T, S = _lib()
    if not isinstance(op, (T, S)):
        return None
    return D.term_list(op)


def _width(tl):
    qs = D.qubits_of(tl)
    return max(qs) + 1 if qs else 0


def _dy(x):
    return abs(x) <= 2.0**20 and float(x * 32768.0).is_integer()


def _dyadic(tl):
    return all(_dy(c.real) and _dy(c.imag) for _, c in tl)


def _maxabs(M):
    M = np.asarray(M)
    return float(np.abs(M).max()) if M.size else 0.0


def _is_simplified(tl):
    seen = set()
    for ops, c in tl:
        key = tuple(ops)
        if key in seen or abs(c) <= 1e-8:
            return False
        seen.add(key)
    return True


def _simplifies_to_nothing(tl):
    """like terms merged, every coefficient at most the 1e-8 drop threshold: the zero operator"""
    merged = {}
    for ops, c in tl:
        merged[tuple(ops)] = merged.get(tuple(ops), 0) + c
    return all(abs(c) <= 1e-8 for c in merged.values())


def _arg(call, pos, name, default=None):
    if len(call.args) > pos:
        return call.args[pos]
    return call.kwargs.get(name, default)


def _to_dense(x):
    """ndarray of a scipy sparse matrix / ndarray result, or None"""
    try:
        if hasattr(x, "toarray"):
            return np.asarray(x.toarray(), dtype=complex)
        if isinstance(x, np.ndarray):
            return x.astype(complex)
    except Exception:
        return None
    return None


# ----------------------------------------------------------------------------- monitors
def _post_sparse(mon, call):
    hook = "get_sparse_operator"
    op = _arg(call, 0, "operator")
    n = _arg(call, 1, "n_qubits")
    tl = _terms(op)
    if tl is None or not (n is None or (isinstance(n, (int, np.integer)) and not isinstance(n, bool))):
        mon.out_of_domain(hook)
        return
    w = _width(tl)
    n = w if n is None else int(n)
    if n < w:
        if isinstance(call.exc, ValueError):
            mon.note("sparse:too-few-qubits-rejected")
        mon.out_of_domain(hook)
        return
    if n > WIDE_MAXN:
        mon.out_of_domain(hook)
        return
    if call.exc is not None:
        kind = "sparse-operator-raises" + ("-on-empty-sum" if not tl else "")
        mon.violation(kind, f"get_sparse_operator({op!r}, {n}) raised {call.exc!r}")
        return
    if n > MAXN:
        # wide register: the matrix is judged by its action on probe vectors, never densified
        R = call.result
        if getattr(R, "shape", None) != (2**n, 2**n) or not hasattr(R, "dot"):
            mon.violation("sparse-operator-shape", f"get_sparse_operator({op!r}, {n}) returned {call.result!r}"[:400])
            return
        scale = max(1.0, D.abs_sum(tl))
        worst = 0.0
        for v in PW.probes(_PROBE_RNG, n):
            got_v = np.asarray(R.dot(v)).reshape(-1)
            worst = max(worst, _maxabs(got_v - PW.apply(tl, n, v)) / max(1.0, float(np.abs(v).max())))
        mon.note("sparse:wide-register")
        if not worst <= 1e-10 * scale:
            mon.violation("sparse-operator-wrong-matrix",
                          f"get_sparse_operator({op!r}, {n}): |M v - (tensor-product definition) v| = {worst:.3e} on a probe vector")
        else:
            mon.ok(hook)
        return
    got = _to_dense(call.result)
    if got is None or got.shape != (2**n, 2**n):
        mon.violation("sparse-operator-shape", f"get_sparse_operator({op!r}, {n}) returned {call.result!r}")
        return
    exp = D.dense(tl, n)
    tol = 1e-12 * max(1.0, D.abs_sum(tl))
    d = _maxabs(got - exp)
    mon.note("sparse:padded" if n > w else "sparse:exact-width")
    if not d <= tol:
        mon.violation("sparse-operator-wrong-matrix",
                      f"get_sparse_operator({op!r}, {n}): max |M - tensor-product definition| = {d:.3e} > {tol:.3e}")
    else:
        mon.ok(hook)


def _plain_matrix(x):
    """square dense complex array of a scipy sparse matrix / numpy array operand (<= 2^MAXN), else None"""
    import scipy.sparse

    try:
        if scipy.sparse.issparse(x):
            A = np.asarray(x.toarray(), dtype=complex)
        elif isinstance(x, np.ndarray):
            A = np.asarray(x, dtype=complex)
        else:
            return None
    except Exception:
        return None
    if A.ndim != 2 or A.shape[0] != A.shape[1] or A.shape[0] > 2 ** MAXN:
        return None
    return A


def _post_hc(mon, call):
    hook = "hermitian_conjugated"
    op = _arg(call, 0, "operator")
    tl = _terms(op)
    if tl is None:
        A = _plain_matrix(op)
        if A is None:
            mon.out_of_domain(hook)
            return
        # matrix operands (scipy sparse / numpy array): the conjugate transpose, entry by entry
        if call.exc is not None:
            mon.violation("conjugate-raises", f"hermitian_conjugated(<{type(op).__name__} {A.shape}>) raised {call.exc!r}")
            return
        R = _plain_matrix(call.result)
        if R is None or R.shape != A.shape[::-1] or not np.array_equal(R, A.conj().T):
            mon.violation("conjugate-wrong-matrix",
                          f"hermitian_conjugated(<{type(op).__name__}> {A.tolist()!r}) = {None if R is None else R.tolist()!r}")
        else:
            mon.ok(hook + ":matrix")
        return
    if call.exc is not None:
        mon.violation("conjugate-raises", f"hermitian_conjugated({op!r}) raised {call.exc!r}")
        return
    rl = _terms(call.result)
    if rl is None:
        mon.violation("conjugate-result-type", f"hermitian_conjugated({op!r}) returned {call.result!r}")
        return
    qmap, n = D.compress(tl, rl)
    if n > MAXN:
        mon.out_of_domain(hook)
        return
    exp = D.dense(tl, n, qmap).conj().T
    tol = 1e-12 * max(1.0, D.abs_sum(tl)) + (0.0 if _dyadic(tl) else 1e-8 * (len(tl) + 1))
    d = _maxabs(D.dense(rl, n, qmap) - exp)
    if not d <= tol:
        mon.violation("conjugate-wrong-matrix",
                      f"hermitian_conjugated({op!r}) = {call.result!r}: max |M(result) - M(op)^dagger| = {d:.3e} > {tol:.3e}")
    else:
        mon.ok(hook)


def _post_ih(mon, call):
    hook = "is_hermitian"
    op = _arg(call, 0, "operator")
    tl = _terms(op)
    T, S = _lib()
    if tl is None and _plain_matrix(op) is not None:
        A = _plain_matrix(op)
        if call.exc is not None:
            mon.violation("is-hermitian-raises", f"is_hermitian(<{type(op).__name__} {A.shape}>) raised {call.exc!r}")
            return
        anti = float(np.abs(A - A.conj().T).max()) if A.size else 0.0
        if anti <= 1e-12:
            expected = True
        elif anti >= 1e-3:
            expected = False
        else:
            mon.out_of_domain(hook)
            return
        if bool(call.result) != expected:
            mon.violation("is-hermitian-disagrees-with-matrix",
                          f"is_hermitian(<{type(op).__name__}> {A.tolist()!r}) is {call.result!r}; max |A - A^dagger| = {anti:.3e}")
        else:
            mon.ok(hook + ":matrix")
        return
    if tl is None or (isinstance(op, S) and not _is_simplified(tl)):
        if tl is not None:
            mon.note("is_hermitian:operand-not-simplified")
        mon.out_of_domain(hook)
        return
    if call.exc is not None:
        mon.violation("is-hermitian-raises", f"is_hermitian({op!r}) raised {call.exc!r}")
        return
    qmap, n = D.compress(tl)
    if n > MAXN:
        mon.out_of_domain(hook)
        return
    M = D.dense(tl, n, qmap)
    anti = D.coeff_l2(M - M.conj().T, n)
    cmax = max([abs(c) for _, c in tl] or [0.0])
    if anti <= 1e-10:
        expected = True
    elif anti / math.sqrt(max(1, len(tl))) >= 1e-3 * max(1.0, cmax):
        expected = False
    else:
        mon.note("is_hermitian:grey-zone")
        mon.out_of_domain(hook)
        return
    mon.note(f"is_hermitian:expected-{expected}")
    if bool(call.result) != expected:
        mon.violation("is-hermitian-disagrees-with-matrix",
                      f"is_hermitian({op!r}) is {call.result!r}; |M - M^dagger| in coefficient space = {anti:.3e}")
    else:
        mon.ok(hook)


def _matrix_arg(m):
    """2^n x 2^n complex ndarray (n >= 1) of the user's matrix, or None"""
    try:
        A = np.array(m, dtype=complex)
    except Exception:
        return None
    if A.ndim != 2 or A.shape[0] != A.shape[1]:
        return None
    d = A.shape[0]
    if d < 2 or d & (d - 1) or not np.isfinite(A).all():
        return None
    return A


def pauli_coefficients(A, n):
    """reference expansion: c_P = tr(P A) / 2^n for all 4^n strings (bit arithmetic)"""
    out = {}
    N = 2**n
    b = np.arange(N)
    for idx in range(4**n):
        ops = []
        x = idx
        for q in range(n - 1, -1, -1):
            ops.append((q, "IXYZ"[x % 4]))
            x //= 4
        ops = [(q, o) for q, o in sorted(ops) if o != "I"]
        P = D.string_matrix(ops, 1.0, n)
        out[tuple(ops)] = complex(np.sum(P * A.T)) / N  # tr(P A) = sum_ij P_ij A_ji
    return out


def _post_from_matrix(mon, call):
    hook = "get_pauliop_from_matrix"
    A = _matrix_arg(_arg(call, 0, "operator"))
    if A is None or A.shape[0] > 16:
        mon.out_of_domain(hook)
        return
    n = int(round(math.log2(A.shape[0])))
    if call.exc is not None:
        mon.violation("expansion-raises", f"get_pauliop_from_matrix of a {A.shape[0]}x{A.shape[0]} matrix raised {call.exc!r}")
        return
    rl = _terms(call.result)
    if rl is None:
        mon.violation("expansion-result-type", f"get_pauliop_from_matrix returned {call.result!r}")
        return
    if _width(rl) > n:
        mon.violation("expansion-wider-than-matrix", f"{n}-qubit matrix expanded to {call.result!r}")
        return
    # coefficients of at most 1e-8 may be dropped by the sum's simplification
    slack = sum(abs(c) for c in pauli_coefficients(A, n).values() if abs(c) <= 1.0000001e-8)
    scale = max(1.0, _maxabs(A))
    tol = 1e-12 * scale * 4**n + slack
    d = _maxabs(D.dense(rl, n) - A)
    mon.note(f"from_matrix:n={n}")
    if not d <= tol:
        mon.violation("expansion-does-not-reproduce-matrix",
                      f"matrix {np.array2string(A, precision=4, max_line_width=400).replace(chr(10), ' ')[:500]} expanded to "
                      f"{call.result!r}: max |M(result) - matrix| = {d:.3e} > {tol:.3e}")
    else:
        mon.ok(hook)


def _post_reverse(mon, call):
    hook = "reverse_qubit_order"
    op = _arg(call, 0, "qubit_operator")
    n = _arg(call, 1, "n_qubits")
    tl = _terms(op)
    if tl is None or not (n is None or (isinstance(n, (int, np.integer)) and not isinstance(n, bool))):
        mon.out_of_domain(hook)
        return
    w = _width(tl)
    n = w if n is None else int(n)
    if n < w:
        if isinstance(call.exc, ValueError):
            mon.note("reverse:too-few-qubits-rejected")
        mon.out_of_domain(hook)
        return
    if n > MAXN:
        mon.out_of_domain(hook)
        return
    if call.exc is not None:
        mon.violation("reverse-raises", f"reverse_qubit_order({op!r}, {n}) raised {call.exc!r}")
        return
    rl = _terms(call.result)
    if rl is None:
        mon.violation("reverse-result-type", f"reverse_qubit_order({op!r}, {n}) returned {call.result!r}")
        return
    if _width(rl) > n:
        mon.violation("reverse-leaves-register", f"reverse_qubit_order({op!r}, {n}) = {call.result!r} acts outside {n} qubits")
        return
    perm = L.bit_reversal_perm(n)
    M = D.dense(tl, n)
    exp = M[np.ix_(perm, perm)]  # R M R with R|b> = |bit-reversed b>
    tol = 1e-12 * max(1.0, D.abs_sum(tl)) + (0.0 if _dyadic(tl) else 1e-8 * (len(tl) + 1))
    d = _maxabs(D.dense(rl, n) - exp)
    if not d <= tol:
        mon.violation("reverse-is-not-bit-reversal",
                      f"reverse_qubit_order({op!r}, {n}) = {call.result!r}: max |M(result) - R M R| = {d:.3e} > {tol:.3e}")
    else:
        mon.ok(hook)


def _amplitudes(wf):
    try:
        a = np.asarray(wf.amplitudes)
        if a.dtype == object:
            return None
        a = a.astype(complex).reshape(-1)
    except Exception:
        return None
    d = a.shape[0]
    if d < 1 or d & (d - 1) or not np.isfinite(a).all():
        return None
    return a


def _post_gev(mon, call):
    hook = "get_expectation_value"
    op = _arg(call, 0, "qubit_op")
    wf = _arg(call, 1, "wavefunction")
    rev = bool(_arg(call, 2, "reverse_operator", False))
    tl = _terms(op)
    psi = _amplitudes(wf) if wf is not None else None
    if tl is None or psi is None:
        mon.out_of_domain(hook)
        return
    n = psi.shape[0].bit_length() - 1
    if _width(tl) > n or n > WIDE_MAXN:
        mon.out_of_domain(hook)
        return
    if call.exc is not None:
        # with reverse_operator the operator is rebuilt through +=, which drops |c| <= 1e-8
        vanishes = not tl or (rev and _simplifies_to_nothing(tl))
        kind = "expectation-value-raises" + ("-on-empty-sum" if vanishes else "")
        mon.violation(kind, f"get_expectation_value({op!r}, {n}-qubit state, reverse={rev}) raised {call.exc!r}")
        return
    if rev:
        tl = [(sorted((n - 1 - q, o) for q, o in ops), c) for ops, c in tl]
    exp = complex(np.vdot(psi, D.dense(tl, n) @ psi)) if n <= MAXN else complex(np.vdot(psi, PW.apply(tl, n, psi)))
    try:
        got = complex(call.result)
    except Exception:
        mon.violation("expectation-value-type", f"get_expectation_value returned {call.result!r}")
        return
    tol = 1e-10 * max(1.0, D.abs_sum(tl)) * max(1.0, float(np.vdot(psi, psi).real))
    mon.note("gev:reversed" if rev else "gev:direct")
    if not abs(got - exp) <= tol:
        mon.violation("expectation-value-wrong",
                      f"get_expectation_value({op!r}, psi={np.array2string(psi, precision=5, max_line_width=400)[:300]}, reverse={rev}) = {got!r}, "
                      f"psi^dagger M psi = {exp!r}")
    else:
        mon.ok(hook)


def _post_expectation(mon, call):
    hook = "expectation"
    operator = _arg(call, 0, "operator")
    state = _arg(call, 1, "state")
    M = _to_dense(operator)
    if M is None:
        # a LinearOperator (documented operand): its matrix is its action on the basis vectors
        try:
            import scipy.sparse.linalg

            if isinstance(operator, scipy.sparse.linalg.LinearOperator) and len(operator.shape) == 2 \
                    and operator.shape[0] == operator.shape[1] <= 2**MAXN:
                M = np.asarray(operator.matmat(np.eye(operator.shape[0], dtype=complex)), dtype=complex)
                mon.note("expectation:linear-operator")
        except Exception:
            M = None
    if M is None or M.ndim != 2 or M.shape[0] != M.shape[1] or M.shape[0] > 2**MAXN or not np.isfinite(M).all():
        mon.out_of_domain(hook)
        return
    d = M.shape[0]
    if isinstance(state, np.ndarray) and state.dtype != object and state.shape in ((d,), (d, 1)):
        v = state.astype(complex).reshape(-1)
        exp = complex(np.vdot(v, M @ v))
        scale = float(np.vdot(v, v).real)
        form = "vector"
    elif hasattr(state, "toarray") and getattr(state, "shape", None) == (d, d):
        rho = np.asarray(state.toarray(), dtype=complex)
        exp = complex(np.trace(rho @ M))
        scale = float(np.abs(rho).sum())
        form = "density"
    else:
        mon.out_of_domain(hook)
        return
    if call.exc is not None:
        mon.violation("expectation-raises", f"expectation(<{d}x{d}>, <{form}>) raised {call.exc!r}")
        return
    try:
        got = complex(call.result)
    except Exception:
        mon.violation("expectation-type", f"expectation returned {call.result!r}")
        return
    tol = 1e-10 * max(1.0, _maxabs(M)) * max(1.0, scale)
    mon.note(f"expectation:{form}")
    if not abs(got - exp) <= tol:
        mon.violation("expectation-wrong",
                      f"expectation(M, {form}) = {got!r} but the quadratic form is {exp!r}; "
                      f"state={np.array2string(np.asarray(state.toarray() if hasattr(state, 'toarray') else state), precision=5, max_line_width=400).replace(chr(10), ' ')[:300]}")
    else:
        mon.ok(hook)


def install(mon, reach):
    import orquestra.quantum.operators as OPS
    from orquestra.quantum.operators import _utils as U
    from orquestra.quantum.operators._openfermion_utils import operator_utils as OU
    from orquestra.quantum.operators._openfermion_utils import sparse_tools as ST

    D.selfcheck()
    reach.watch(ST.get_sparse_operator, "get_sparse_operator", markers={
        "gap-identity": r"identity_qubits = qubit_num - tensor_factor",
        "trailing-identity": r"identity_qubits = n_qubits - tensor_factor"})
    reach.watch(ST.expectation, "expectation", markers={
        "density-matrix": r"product = state \* operator",
        "row-vector": r"expectation = numpy\.dot\(numpy\.conjugate\(state\), operator \* state\)",
        "column-vector": r"numpy\.conjugate\(state\.T\)"})
    reach.watch(OU.hermitian_conjugated, "hermitian_conjugated")
    reach.watch(OU.is_hermitian, "is_hermitian")
    reach.watch(U.get_pauliop_from_matrix, "get_pauliop_from_matrix")
    reach.watch(U.reverse_qubit_order, "reverse_qubit_order")
    reach.watch(U.get_expectation_value, "get_expectation_value")
    mon.hook_func(ST, "get_sparse_operator", post=_post_sparse, name="get_sparse_operator")
    mon.hook_func(ST, "expectation", post=_post_expectation, name="expectation")
    mon.hook_func(OU, "hermitian_conjugated", post=_post_hc, name="hermitian_conjugated")
    mon.hook_func(OU, "is_hermitian", post=_post_ih, name="is_hermitian")
    mon.hook_func(U, "get_pauliop_from_matrix", post=_post_from_matrix, name="get_pauliop_from_matrix")
    mon.hook_func(U, "reverse_qubit_order", post=_post_reverse, name="reverse_qubit_order")
    mon.hook_func(U, "get_expectation_value", post=_post_gev, name="get_expectation_value")
    assert OPS.get_sparse_operator is ST.get_sparse_operator  # aliases were rebound


# ----------------------------------------------------------------------------- cases
def _pool(rng, kmax=4, top=6):
    """distinct qubits below ``top``; half of the time with gaps"""
    k = rng.randint(1, kmax)
    if rng.random() < 0.5:
        return sorted(rng.sample(range(top + 1), k))
    return list(range(k))


def _spec_width(specs):
    qs = [q for ops, _ in specs for q, _o in ops]
    return max(qs) + 1 if qs else 0


def _has_gap(specs):
    for ops, _ in specs:
        qs = [q for q, _o in ops]
        if qs and (max(qs) - min(qs) + 1 > len(qs) or min(qs) > 0):
            return True
    return False


def _operator_spec(rng, regime, allow_empty=True, top=6, kmax=4):
    pool = _pool(rng, kmax=kmax, top=top)
    kind = rng.choice(["term", "sum", "sum"])
    yheavy = rng.random() < 0.4
    if kind == "term":
        return G.rand_term(rng, pool, regime, yheavy=yheavy, zero=rng.random() < 0.05)
    lo = 0 if allow_empty and rng.random() < 0.06 else 1
    return G.rand_sum(rng, pool, regime, nterms=rng.randint(lo, 5) if lo else 0, yheavy=yheavy)


def _as_list(spec):
    return spec if isinstance(spec, list) else [spec]


def _build(spec):
    T, S = _lib()
    if isinstance(spec, list):
        return G.build_sum(T, S, spec)
    return G.build_term(T, spec)


def _nontrivial(spec, n=None):
    specs = _as_list(spec)
    return G.has_y(specs) or _has_gap(specs) or (n is not None and n > _spec_width(specs))


def _ref_terms(spec):
    return [(sorted(ops), complex(c)) for ops, c in _as_list(spec)]


def rand_matrix(rng, nprng, n, kind):
    d = 2**n
    if kind == "complex":
        A = nprng.normal(size=(d, d)) + 1j * nprng.normal(size=(d, d))
    elif kind == "real":
        A = nprng.uniform(-1, 1, size=(d, d))
    elif kind == "hermitian":
        B = nprng.normal(size=(d, d)) + 1j * nprng.normal(size=(d, d))
        A = (B + B.conj().T) / 2
    elif kind == "pauli":
        letters = [rng.choice("IXYZ") for _ in range(n)]
        if rng.random() < 0.6:
            letters[rng.randrange(n)] = "Y"
        A = D.string_matrix(list(enumerate(letters)), G.dyadic(rng), n)
    elif kind == "dyadic":
        A = (nprng.integers(-16, 17, size=(d, d)) + 1j * nprng.integers(-16, 17, size=(d, d))) / 8
    elif kind == "sparse":
        A = np.zeros((d, d), dtype=complex)
        for _ in range(rng.randint(1, d)):
            A[rng.randrange(d), rng.randrange(d)] = complex(rng.uniform(-2, 2), rng.uniform(-2, 2))
    elif kind == "diagonal":
        A = np.diag(nprng.uniform(-2, 2, size=d)).astype(complex)
    elif kind == "int":
        A = nprng.integers(-3, 4, size=(d, d))
    elif kind.startswith("near_"):
        # a matrix with a structure (symmetric, Hermitian, diagonal, real) at scale s, plus a part that breaks the
        # structure and is small next to s but far above every tolerance of the oracle: structure tests made with a
        # relative tolerance (allclose) take such a matrix for structured and lose the small part
        s = rng.choice([1.0, 1.0, 30.0, 1e3, 1e5])
        eps = s * 10.0 ** -rng.randint(3, 6) * rng.uniform(0.3, 3.0)
        B = nprng.normal(size=(d, d)) + 1j * nprng.normal(size=(d, d))
        P = nprng.normal(size=(d, d)) + 1j * nprng.normal(size=(d, d))
        if kind == "near_sym":
            if rng.random() < 0.5:
                B, P = B.real, P.real
            base, pert = s * (B + B.T) / 2, eps * (P - P.T) / 2
        elif kind == "near_herm":
            base, pert = s * (B + B.conj().T) / 2, eps * (P - P.conj().T) / 2
        elif kind == "near_diag":
            base, pert = s * np.diag(np.diag(B)), eps * (P - np.diag(np.diag(P)))
        else:  # near_real
            base, pert = s * B.real, 1j * eps * P.real
        if rng.random() < 0.3:
            # the breaking part on a single Pauli string
            letters = [rng.choice("IXYZ") for _ in range(n)]
            k = rng.randrange(n)
            if kind in ("near_sym", "near_real"):
                letters = [l if l != "Y" else "Z" for l in letters]
                letters[k] = "Y"  # exactly one Y: antisymmetric and imaginary
                pert = D.string_matrix(list(enumerate(letters)), eps, n)
            elif kind == "near_herm":
                pert = D.string_matrix(list(enumerate(letters)), 1j * eps, n)
            else:
                letters[k] = rng.choice("XY")
                pert = D.string_matrix(list(enumerate(letters)), eps, n)
        A = np.asarray(base + pert)
    else:
        A = np.zeros((d, d))
    return A



def _distinct_spec(rng, top=4, kmax=3, nmax=3):
    """1-3 terms on distinct Pauli strings, generic coefficients of magnitude > 0.05 (a simplified operator)"""
    spec = _as_list(_operator_spec(rng, "generic", allow_empty=False, top=top, kmax=kmax))
    seen, out = set(), []
    for ops, c in spec:
        if tuple(ops) in seen or len(out) >= nmax:
            continue
        seen.add(tuple(ops))
        out.append((ops, c if abs(c) > 0.05 else 0.5))
    return out or [(((0, "Z"),), 0.5)]


def _other_coefficient(rng, c):
    """a coefficient that differs from ``c`` by far more than any oracle tolerance; some choices stay within the
    library's own tolerance-equality of coefficients, some flip Hermiticity, some are numpy scalars"""
    c = complex(c)
    k = rng.randrange(8)
    if k == 0:
        return c * 2
    if k == 1:
        return c + 3e-7
    if k == 2:
        return complex(c.real, 0.5 if abs(c.imag - 0.5) > 0.1 else -0.75)
    if k == 3:
        return 1.25 if abs(c - 1.25) > 0.1 else -0.375
    if k == 4:
        return -c
    if k == 5:
        return np.float64(rng.choice([-1, 1]) * rng.uniform(0.1, 3.0))
    if k == 6:
        return np.complex128(complex(rng.uniform(0.1, 2.0), rng.uniform(-2.0, -0.1)))
    return G.generic(rng)


def _scribble_sparse(rng, M):
    """the caller rescales / overwrites entries of a sparse matrix it owns (structure kept: no efficiency warning)"""
    k = rng.randrange(4)
    if k == 0:
        M *= 10
    elif k == 1 and M.nnz:
        M.data[:] = 0.0
    elif k == 2 and M.nnz:
        M.data[rng.randrange(M.nnz)] += 7.0
    else:
        M *= (0.5 - 1.5j)
        if M.nnz:
            M.data[0] = 3.0


def _scribble_operator(rng, T, res):
    """the caller edits an operator that a conversion returned (public attributes only)"""
    terms = res.terms
    k = rng.randrange(4)
    if isinstance(res, T):
        res.coefficient = complex(res.coefficient) * 3 + 1
        return
    if k == 0 and len(terms):
        t = terms[rng.randrange(len(terms))]
        t.coefficient = complex(t.coefficient) * 3 + 1
    elif k == 1 and isinstance(terms, list):
        terms.append(T({0: "Y"}, 2.5))
    elif k == 2 and isinstance(terms, list) and len(terms):
        del terms[rng.randrange(len(terms))]
    else:
        res.terms = [T({0: "X", 1: "Y"}, -1.5j)] + list(terms)
        for t in terms:
            t.coefficient = complex(t.coefficient) - 2


def run_case(ctx):
    from orquestra.quantum.operators import (
        expectation,
        get_expectation_value,
        get_sparse_operator,
        hermitian_conjugated,
        is_hermitian,
        reverse_qubit_order,
    )
    from orquestra.quantum.operators._utils import get_pauliop_from_matrix
    from orquestra.quantum.wavefunction import Wavefunction

    T, S = _lib()
    rng, nprng = ctx.rng, ctx.nprng
    cls = ctx.cls
    regime = "dyadic" if rng.random() < 0.5 else "generic"

    if cls == "sparse":
        spec = _operator_spec(rng, regime, top=6)
        w = _spec_width(_as_list(spec))
        mode = rng.choice(["pad", "pad", "pad", "none", "small"])
        if mode == "pad":
            n = min(MAXN, w + rng.randint(0, 3))
        elif mode == "none":
            n = None
        else:
            n = w - 1 if w >= 1 else None
        ctx.describe(f"sparse {regime} {G.fmt(spec)} n={n}", _nontrivial(spec, n))
        op = _build(spec)
        if n is not None and n < w:
            try:
                get_sparse_operator(op, n)
            except ValueError:
                pass
            return
        empty = isinstance(spec, list) and not spec
        try:
            get_sparse_operator(op, n) if n is not None else get_sparse_operator(op)
        except ValueError:
            if not empty:
                raise  # the hook has recorded the empty-sum failure; anything else is unexpected here too
        return

    if cls == "wide":
        # registers of 8 - 12 qubits (13 thorough): few terms whose qubits straddle position 8 (a byte of basis-index
        # bits, the size from which small-integer sets stop iterating in ascending order), built from dictionaries and
        # strings in every factor order; the sparse matrix and the expectation value are judged matrix-free
        n = rng.choice([8, 9, 9, 10, 10, 11, 12] if ctx.quick else [8, 9, 10, 11, 12, 13])
        nterms = rng.choice([1, 1, 2, 3])
        if ctx.index % 24 == 23:
            # many terms on a wide register: 63 / 64 / 65 / 128 terms on 10 qubits are 2**16, 2**17 matrix entries
            # (whatever is buffered, folded or chunked on the way to the sparse matrix has its boundary near a power of two)
            n = 10
            nterms = rng.choice([63, 64, 65, 128])
            ctx.mon.note("wide:many-terms")
        specs = []
        for _ in range(nterms):
            k = rng.choice([1, 2, 2, 3, 4])
            low = [q for q in range(min(8, n))]
            high = [q for q in range(8, n)]
            qs = set(rng.sample(range(n), min(k, n)))
            if high and rng.random() < 0.7:
                qs.add(rng.choice(high))
                qs.add(rng.choice(low))
            order = list(qs)
            rng.shuffle(order)
            ops = [(q, rng.choice("XYZ")) for q in order]
            c = G.coeff(rng, regime)
            specs.append((ops, c))
        def mk(ops, c):
            route = rng.choice(["dict", "string", "string-sorted"])
            if route == "dict":
                return T({q: o for q, o in ops}, c)
            seq = sorted(ops) if route == "string-sorted" else ops
            return T("*".join(f"{o}{q}" for q, o in seq), c)
        terms = [mk(ops, c) for ops, c in specs]
        op = terms[0] if len(terms) == 1 and rng.random() < 0.5 else S(terms)
        w = max(q for ops, _ in specs for q, _o in ops) + 1
        nn = rng.choice([n, n, w, None]) if w <= n else n
        ctx.describe(f"wide n={nn} " + " + ".join(f"({c})*" + "*".join(f"{o}{q}" for q, o in ops) for ops, c in specs), True)
        ctx.mon.note(f"wide:register-{nn if nn is not None else w}")
        if nn is None:
            get_sparse_operator(op)
        else:
            get_sparse_operator(op, nn)
        if rng.random() < 0.6:
            reg = nn if nn is not None else w
            psi = nprng.normal(size=2**reg) + 1j * nprng.normal(size=2**reg)
            psi /= np.linalg.norm(psi)
            get_expectation_value(op, Wavefunction(psi))
        if rng.random() < 0.3:
            reverse_qubit_order(op, nn if nn is not None else w)
        return

    if cls == "hermitian":
        mode = rng.choice(["random", "hermitian", "hermitian", "nonhermitian", "symmetrised", "antisymmetrised"])
        spec = _operator_spec(rng, regime, top=6)
        if mode == "hermitian":
            spec = [(ops, c.real if isinstance(c, complex) else c) for ops, c in _as_list(spec)]
            spec = [(ops, c if c != 0 else 1.0) for ops, c in spec]
            if len(spec) == 1 and rng.random() < 0.5:
                spec = spec[0]
        elif mode == "nonhermitian":
            specs = list(_as_list(spec)) or [(((0, "Y"),), 1.0)]
            i = rng.randrange(len(specs))
            specs[i] = (specs[i][0], complex(specs[i][1]).real + (rng.choice([0.125, -2.0, 0.5]) if regime == "dyadic" else rng.uniform(0.05, 2.0)) * 1j)
            spec = specs if len(specs) > 1 or rng.random() < 0.5 else specs[0]
        ctx.describe(f"hermitian {regime}/{mode} {G.fmt(spec)}", _nontrivial(spec))
        op = _build(spec)
        hc = hermitian_conjugated(op)
        is_hermitian(op)
        if isinstance(op, S):
            is_hermitian(op.simplify())
        if mode == "symmetrised":
            is_hermitian(op + hc)
        elif mode == "antisymmetrised":
            is_hermitian(op - hc)
        is_hermitian(hermitian_conjugated(hc))
        # the same two questions asked of the operator's matrix (sparse and dense operands)
        w = _spec_width(_as_list(spec))
        if 1 <= w <= 4 and not _simplifies_to_nothing(_ref_terms(spec)) and not (isinstance(spec, list) and not spec):
            M = get_sparse_operator(op, w)
            for A in (M, np.asarray(M.toarray())):
                hermitian_conjugated(A)
                is_hermitian(A)
            if mode in ("symmetrised", "antisymmetrised"):
                M2 = get_sparse_operator(op + hc if mode == "symmetrised" else op - hc, w) \
                    if not _simplifies_to_nothing(D.term_list(op + hc if mode == "symmetrised" else op - hc) or []) else None
                if M2 is not None:
                    is_hermitian(M2)
                    is_hermitian(np.asarray(M2.toarray()))
        return

    if cls == "from_matrix":
        nmax = 3 if ctx.quick else 4
        n = rng.choice([1, 2, 2, 3, 3] if nmax == 3 else [1, 2, 2, 3, 3, 4])
        kind = rng.choice(["complex", "complex", "real", "hermitian", "pauli", "pauli", "dyadic", "sparse",
                           "diagonal", "int", "zero", "near_sym", "near_sym", "near_herm", "near_diag", "near_real"])
        A = rand_matrix(rng, nprng, n, kind)
        box = rng.choice(["ndarray"] * 11 + ["list"] * 5 + ["tuple", "rows", "fortran", "view"])
        as_list = box in ("list", "tuple")
        sym = bool(np.abs(A - A.T).max() < 1e-12)
        ctx.describe(f"from_matrix n={n} {kind} list={as_list} box={box} " + np.array2string(np.asarray(A), precision=6, max_line_width=100000).replace("\n", " "),
                     not sym)
        arg = [[complex(x) if np.iscomplexobj(A) else float(x) for x in row] for row in A] if as_list else A
        if as_list and kind == "int":
            arg = [[int(x) for x in row] for row in A]
        if box == "tuple":
            arg = tuple(tuple(row) for row in arg)
        elif box == "rows":
            arg = [np.array(row) for row in np.asarray(A)]
        elif box == "fortran":
            arg = np.asfortranarray(A)
        elif box == "view":
            big = np.zeros((2 * A.shape[0], 2 * A.shape[0] + 1), dtype=np.asarray(A).dtype)
            big[::2, 1::2] = A
            arg = big[::2, 1::2]
        op = get_pauliop_from_matrix(arg)
        # and back: the sparse matrix of the expansion is the matrix again
        try:
            back = get_sparse_operator(op, n)
        except ValueError:
            if len(op.terms) == 0:
                return  # the hook has recorded the empty-sum failure
            raise
        Ad = np.asarray(A, dtype=complex)
        d = _maxabs(np.asarray(back.toarray()) - Ad)
        slack = 1e-8 * (4**n + 1) if kind not in ("pauli", "dyadic", "int", "zero") else 0.0
        ctx.check("matrix-roundtrip", d <= 1e-12 * max(1.0, _maxabs(Ad)) * 4**n + slack,
                  lambda: f"matrix -> Pauli expansion -> sparse matrix differs from the matrix by {d:.3e}")
        return

    if cls == "reverse":
        spec = _operator_spec(rng, regime, top=6)
        w = _spec_width(_as_list(spec))
        mode = rng.choice(["pad", "pad", "none", "small"])
        n = min(MAXN, w + rng.randint(0, 3)) if mode == "pad" else (None if mode == "none" or w == 0 else w - 1)
        ctx.describe(f"reverse {regime} {G.fmt(spec)} n={n}", _nontrivial(spec, n))
        op = _build(spec)
        if n is not None and n < w:
            try:
                reverse_qubit_order(op, n)
            except ValueError:
                pass
            return
        once = reverse_qubit_order(op, n) if n is not None else reverse_qubit_order(op)
        twice = reverse_qubit_order(once, n if n is not None else w)
        nn = max(1, n if n is not None else w)
        tl = _ref_terms(spec)
        t2 = D.term_list(twice)
        ok = t2 is not None and _width(t2) <= nn
        dd = _maxabs(D.dense(t2, nn) - D.dense(tl, nn)) if ok else float("inf")
        tol = 1e-12 * max(1.0, D.abs_sum(tl)) + (0.0 if regime == "dyadic" else 2e-8 * (len(tl) + 1))
        ctx.check("reverse-twice-identity", dd <= tol,
                  lambda: f"reversing {op!r} twice on {n} qubits gives {twice!r} (matrix differs by {dd:.3e})")
        return

    if cls == "history":
        # several conversions in one process of operators that agree in everything a too-coarse memo key could look
        # at (Pauli strings, hash bucket / tolerance-equality of the coefficients, object identity, width) and
        # differ by more than the oracle's tolerance; every call is judged by the hooks
        spec = _as_list(_operator_spec(rng, "generic", allow_empty=False, top=4, kmax=3))[:3]
        spec = [(ops, c if abs(c) > 0.05 else 0.5) for ops, c in spec] or [(((0, "Z"),), 0.5)]
        w = max(1, _spec_width(spec))
        mode = rng.choice(["coeff", "width", "reverse-flag", "same-object", "short-lived"])
        ctx.describe(f"history {mode} {G.fmt(spec)} w={w}", True)
        psi = L.random_state(nprng, 2 ** w)
        wf = Wavefunction(psi)

        def variant(delta):
            v = [(ops, c + delta * (1 if i == 0 else 0)) for i, (ops, c) in enumerate(spec)]
            return _build(v if len(v) > 1 or rng.random() < 0.5 else v[0])

        if mode == "coeff":
            for delta in (0.0, 2e-7, -4e-7, 3e-6, 0.0):
                op = variant(delta)
                get_sparse_operator(op, w)
                get_expectation_value(op, wf)
                hermitian_conjugated(op)
                reverse_qubit_order(op, w)
        elif mode == "width":
            op = variant(0.0)
            for n in (w, w + 1, w + 2, w, w + 1):
                if n <= MAXN:
                    get_sparse_operator(op, n)
                    reverse_qubit_order(op, n)
        elif mode == "reverse-flag":
            op = variant(0.0)
            for rev in (False, True, False, True):
                get_expectation_value(op, wf, rev)
        elif mode == "same-object":
            op = variant(0.0)
            for _ in range(2):
                get_sparse_operator(op, w)
                get_expectation_value(op, wf)
                is_hermitian(op)
                hermitian_conjugated(op)
            psi2 = L.random_state(nprng, 2 ** w)
            get_expectation_value(op, Wavefunction(psi2))
        else:
            # operators that die immediately: an address-keyed memo would meet recycled ids
            for k in range(6):
                op = variant(0.125 * k)
                get_sparse_operator(op, w)
                get_expectation_value(op, wf)
                del op
        return

    if cls == "mutation":
        # histories on ONE receiver: between two conversions the caller reassigns a public attribute of the operator
        # (a coefficient, the term list), edits in place an object that an earlier conversion returned, or edits in
        # place the matrix / state it passes again.  Every call is judged by the hooks against the operand as it is
        # at that moment, so an answer remembered on the object (or under its identity) shows.
        import warnings

        import scipy.sparse

        spec = _distinct_spec(rng)
        w = max(1, _spec_width(spec))
        mode = rng.choice(["coefficient", "coefficient", "terms", "terms", "result-sparse", "result-operator",
                           "result-expansion", "matrix-expansion", "matrix-hermitian", "matrix-expectation", "state"])
        as_term = len(spec) == 1 and rng.random() < 0.6
        terms = [G.build_term(T, sp) for sp in spec]
        op = terms[0] if as_term else S(terms if rng.random() < 0.7 else tuple(terms))

        # which conversions are asked in every round: one alone (then its two calls around the edit are consecutive:
        # a "most recent call" memo is met), a few, or all of them
        every = ["sparse-n", "sparse", "gev", "gev-reversed", "conjugate", "is-hermitian", "reverse-n", "reverse"]
        asked = rng.sample(every, rng.choice([1, 1, 2, 3, len(every)]))
        ctx.describe(f"mutation {mode} {G.fmt(spec)} w={w} term={as_term} asked={','.join(asked)}", True)

        def convert_all(op, n, wf):
            for what in asked:
                if what == "sparse-n":
                    get_sparse_operator(op, n)
                elif what == "sparse":
                    get_sparse_operator(op)
                elif what == "gev":
                    get_expectation_value(op, wf)
                elif what == "gev-reversed":
                    get_expectation_value(op, wf, True)
                elif what == "conjugate":
                    hermitian_conjugated(op)
                elif what == "is-hermitian":
                    is_hermitian(op)
                elif what == "reverse-n":
                    reverse_qubit_order(op, n)
                else:
                    reverse_qubit_order(op)

        if mode == "coefficient":
            wf = Wavefunction(L.random_state(nprng, 2 ** w))
            convert_all(op, w, wf)
            first = None
            for r in range(2):
                t = op if as_term else op.terms[rng.randrange(len(op.terms))]
                if r == 1 and rng.random() < 0.4:
                    first[0].coefficient = first[1]  # back to where it was
                else:
                    if first is None:
                        first = (t, t.coefficient)
                    t.coefficient = _other_coefficient(rng, t.coefficient)
                convert_all(op, w, wf)
            return

        if mode == "terms":
            if as_term:
                op = S([op])
            n = w + 1
            wf = Wavefunction(L.random_state(nprng, 2 ** n))
            convert_all(op, n, wf)
            for r in range(2):
                cur = list(op.terms)
                fresh = T(dict(rng.choice([((0, "Y"),), ((w, "X"),), ((0, "Z"), (w, "Y")), ()])), G.generic(rng))
                k = rng.randrange(6)
                if k == 0 and isinstance(op.terms, list):
                    op.terms.append(fresh)
                elif k == 1 and isinstance(op.terms, list) and cur:
                    op.terms[rng.randrange(len(cur))] = fresh
                elif k == 2 and isinstance(op.terms, list) and cur:
                    del op.terms[rng.randrange(len(cur))]
                elif k == 3:
                    op.terms = cur[::-1] + [fresh]
                elif k == 4:
                    op.terms = tuple(cur[1:]) + (fresh,)
                else:
                    op.terms = [t.copy(_other_coefficient(rng, t.coefficient)) for t in cur]
                convert_all(op, n, wf)
            return

        if mode == "result-sparse":
            wf = Wavefunction(L.random_state(nprng, 2 ** w))
            n = rng.choice([w, None])
            for r in range(3):
                M = get_sparse_operator(op, w) if n is not None else get_sparse_operator(op)
                get_expectation_value(op, wf)
                with warnings.catch_warnings():
                    warnings.simplefilter("ignore")
                    _scribble_sparse(rng, M)
            get_expectation_value(op, wf, True)
            return

        if mode == "result-operator":
            wf = Wavefunction(L.random_state(nprng, 2 ** w))
            for r in range(2):
                hc = hermitian_conjugated(op)
                is_hermitian(op)
                rv = reverse_qubit_order(op, w)
                rv2 = reverse_qubit_order(op)
                get_expectation_value(op, wf, True)
                get_sparse_operator(op, w)
                for res in (hc, rv, rv2):
                    _scribble_operator(rng, T, res)
            return

        if mode in ("result-expansion", "matrix-expansion"):
            n = rng.choice([1, 2, 2])
            A = rand_matrix(rng, nprng, n, rng.choice(["complex", "hermitian", "dyadic", "pauli", "real"]))
            A = np.array(A, dtype=complex)
            arg = A if rng.random() < 0.6 else [[complex(x) for x in row] for row in A]
            for r in range(3):
                res = get_pauliop_from_matrix(arg)
                if mode == "result-expansion":
                    _scribble_operator(rng, T, res)
                else:
                    i, j = rng.randrange(2 ** n), rng.randrange(2 ** n)
                    if isinstance(arg, np.ndarray) and rng.random() < 0.3:
                        arg *= 1j
                    else:
                        arg[i][j] = arg[i][j] + rng.choice([1.0, -2.5j, 0.75 + 0.5j])
            return

        if mode == "matrix-hermitian":
            # the operator's own matrix, made Hermitian, then one stored entry moved off the Hermitian cone in place
            herm = [(ops, complex(c).real or 1.0) for ops, c in spec]
            M = get_sparse_operator(S([G.build_term(T, sp) for sp in herm]), w)
            A = M if rng.random() < 0.5 else np.asarray(M.toarray())
            for r in range(3):
                hermitian_conjugated(A)
                is_hermitian(A)
                if isinstance(A, np.ndarray):
                    A[rng.randrange(2 ** w), rng.randrange(2 ** w)] += rng.choice([0.5j, 1.5j, -0.25j])
                elif A.nnz:
                    A.data[rng.randrange(A.nnz)] += rng.choice([0.5j, 1.5j, -0.25j])
            return

        if mode == "matrix-expectation":
            M = get_sparse_operator(op, w)
            psi = L.random_state(nprng, 2 ** w)
            form = rng.choice(["row", "column", "density", "all"])
            state = {"row": psi, "column": psi.reshape(-1, 1).copy(),
                     "density": scipy.sparse.csc_matrix(np.outer(psi, psi.conj()))}
            forms = list(state) if form == "all" else [form]
            for r in range(3):
                for f in forms:
                    expectation(M, state[f])
                if rng.random() < 0.5:
                    with warnings.catch_warnings():
                        warnings.simplefilter("ignore")
                        _scribble_sparse(rng, M)
                else:
                    phi = L.random_state(nprng, 2 ** w)
                    state["row"][:] = phi
                    state["column"][:, 0] = phi
                    new = scipy.sparse.csc_matrix(np.outer(phi, phi.conj()))
                    if new.nnz == state["density"].nnz:
                        state["density"].data[:] = new.data
            return

        # state: the wavefunction is edited between two evaluations (item assignment keeps the norm: a phase on one
        # amplitude, two amplitudes exchanged) or the array it was built from is (Wavefunction keeps complex arrays
        # by reference)
        psi = L.random_state(nprng, 2 ** w)
        wf = Wavefunction(psi)
        flags = rng.choice([(False,), (True,), (False, True)])
        for r in range(3):
            for rev in flags:
                get_expectation_value(op, wf, rev)
            k = rng.randrange(3)
            i, j = rng.sample(range(2 ** w), 2)
            if k == 0:
                wf[i] = complex(wf[i]) * 1j
            elif k == 1:
                wf[[i, j]] = wf[[j, i]]
            else:
                psi[:] = L.random_state(nprng, 2 ** w)
        return

    if cls == "spelling":
        # the same questions with operands spelled differently: numpy scalars as coefficients and as n, term
        # sequences that are tuples, the identical term object several times in a sum, coefficients far from 1
        # (where nothing is simplified away: sparse matrix, direct expectation value), operator / state containers
        import scipy.sparse
        import scipy.sparse.linalg

        mode = rng.choice(["numpy-coefficient", "numpy-n", "tuple-terms", "identical-terms", "tiny", "huge",
                           "mixed-scale", "containers"])
        spec = _as_list(_operator_spec(rng, regime, allow_empty=False, top=4, kmax=3)) or [(((0, "Y"),), 0.5)]
        if mode == "numpy-coefficient":
            def npc(c):
                if isinstance(c, complex):
                    return np.complex128(c)
                if isinstance(c, int):
                    return rng.choice([np.int64, np.int32])(c)
                return np.float64(c)
            spec = [(ops, npc(c)) for ops, c in spec]
        elif mode in ("tiny", "huge", "mixed-scale"):
            def scaled(c, i):
                e = {"tiny": rng.choice([-9, -9, -10, -11]), "huge": rng.choice([6, 9, 12]),
                     "mixed-scale": rng.choice([-9, -10, 0]) if i else 0}[mode]
                c = c if c != 0 else 1.0
                return c * 10.0 ** e
            spec = [(ops, scaled(c, i)) for i, (ops, c) in enumerate(spec)]
        w = max(1, _spec_width(spec))
        n = min(MAXN, w + rng.randint(0, 2))
        ntype = rng.choice([np.int64, np.int32, np.intp]) if mode == "numpy-n" else int
        ctx.describe(f"spelling {mode} {G.fmt(spec)} n={n} {ntype.__name__}", _nontrivial(spec, n))
        terms = [G.build_term(T, sp) for sp in spec]
        if mode == "identical-terms":
            terms = terms + [terms[0]] + ([terms[-1], terms[0]] if rng.random() < 0.5 else [])
        if mode == "tuple-terms":
            op = S(tuple(terms))
        elif len(terms) == 1 and rng.random() < 0.5 and mode != "identical-terms":
            op = terms[0]
        else:
            op = S(terms)
        psi = L.random_state(nprng, 2 ** n)
        wf = Wavefunction(psi)
        M = get_sparse_operator(op, ntype(n))
        get_expectation_value(op, wf)
        if mode in ("tiny", "huge", "mixed-scale"):
            get_sparse_operator(op)
            expectation(M, psi)
            return
        get_expectation_value(op, wf, True)
        reverse_qubit_order(op, ntype(n))
        hermitian_conjugated(op)
        is_hermitian(op)
        if mode == "containers":
            for form in (M.tocsr(), M.tocoo(), scipy.sparse.linalg.aslinearoperator(M)):
                expectation(form, psi)
                expectation(form, psi.reshape(-1, 1))
            rho = np.outer(psi, psi.conj())
            expectation(M.tocsr(), scipy.sparse.csr_matrix(rho))
            expectation(M, scipy.sparse.coo_matrix(rho))
            big = np.zeros((2 ** n, 2), dtype=complex)
            big[:, 1] = psi
            expectation(M, big[:, 1])  # a strided view
        return

    if cls == "expectation":
        spec = _operator_spec(rng, regime, top=5, kmax=4)
        w = _spec_width(_as_list(spec))
        n = min(MAXN - 1, max(1, w + rng.randint(0, 2)))
        if n < w:
            n = w
        style = rng.choice(["random", "random", "basis", "real", "sparse"])
        d = 2**n
        if style == "random":
            psi = L.random_state(nprng, d)
        elif style == "basis":
            psi = np.zeros(d, dtype=complex)
            psi[rng.randrange(d)] = cmath.exp(1j * rng.uniform(0, 6.28))
        elif style == "real":
            psi = nprng.normal(size=d).astype(complex)
            psi /= np.linalg.norm(psi)
        else:
            psi = np.zeros(d, dtype=complex)
            for _ in range(rng.randint(1, 3)):
                psi[rng.randrange(d)] = complex(rng.uniform(-1, 1), rng.uniform(-1, 1))
            if np.linalg.norm(psi) == 0:
                psi[0] = 1
            psi /= np.linalg.norm(psi)
        rev = rng.random() < 0.5
        ctx.describe(f"expectation {regime} {G.fmt(spec)} n={n} reverse={rev} {style} psi={np.array2string(psi, precision=8, max_line_width=100000)}",
                     _nontrivial(spec, n))
        op = _build(spec)
        # the empty sum, or (with reversal, which rebuilds the operator through +=) all-zero coefficients
        empty = (isinstance(spec, list) and not spec) or _simplifies_to_nothing(_ref_terms(spec))
        wf = Wavefunction(psi)

        def guarded(f):
            try:
                return f()
            except ValueError:
                if empty:
                    return None  # recorded by the hooks (the empty sum cannot be converted)
                raise

        guarded(lambda: get_expectation_value(op, wf, rev))
        guarded(lambda: get_expectation_value(op, wf))
        M = guarded(lambda: get_sparse_operator(op, n))
        if M is None:
            return
        expectation(M, psi)
        expectation(M, psi.reshape(-1, 1))
        import scipy.sparse

        expectation(M, scipy.sparse.csc_matrix(np.outer(psi, psi.conj())))
        return
    raise ValueError(cls)
