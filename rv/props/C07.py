"""C07 - gate modifiers (dagger, controlled, power, exp) mean what they say."""
import decimal
import itertools
import math
from fractions import Fraction

import numpy as np
import sympy

from ..core import Exhausted
from ..gen import circuits as GC
from ..gen import custom_near as CN
from ..gen import exponents as GE
from ..gen import nonunitary as NU
from ..ref import exactmat as EX
from ..ref import linalg as L

ID = "C07"
LEVEL = "exploration"
RULE = (
    "modifier chains (dagger / controlled(1-3) / power(-3..3) / power(1/q, q=2,3,4) / exp) of length 1-4 "
    "(quick) or 1-5 (thorough) over every built-in gate at random and special parameters, custom numeric "
    "gates and (dagger/controlled only) symbolic gates, total width <= 4/5; plus the exhaustively enumerated "
    "class of all ordered modifier pairs over 9 modifiers x a fixed list of base gates; plus replace_params "
    "commutation cases; plus gates whose matrices are NOT unitary (defective Jordan blocks, triangular, "
    "off-unit-circle diagonal, scaled unitaries incl. |c| = 1 +- 1 %, hermitian positive definite / indefinite, "
    "dense with singular values in [0.5, 2], singular), made as numeric custom gates, parametrised custom gates at "
    "int / float / complex parameters or bare MatrixFactoryGates (flagged hermitian when they are), under the same "
    "chains, 60 % of them forced to hold both a dagger and a (mostly negative) integer power (adjoint = inverse only for "
    "unitaries); a case is non-trivial when its chain has >= 2 modifiers of two different kinds; "
    "distinct = distinct canonical case strings. exp of T, of >= 3-qubit gates and of exp are excluded "
    "(non-terminating sympy calls); plus class 'spelled': the same chains with the numbers handed to power / controlled "
    "(and, one case in five, to the base gate) spelled as fractions.Fraction, sympy Rational / Integer / Float, "
    "decimal.Decimal and numpy signed / unsigned integers of several widths instead of int / float, every ordered "
    "modifier pair with a power in it forced in turn, over built-in, custom and non-unitary bases; plus class 'bigpow': "
    "integer exponents around 2**7/8/15/16, 10**4/5/6, 2**31/32/53/63/64 and beyond (10**20, 2**100, random 54-90 bit "
    "numbers), both signs and parities, alone or under / above dagger, controlled, inverse or a second large power, on "
    "gates with exact Gaussian-rational matrices of bounded or polynomially growing powers (built-ins, phase "
    "permutations, unipotent, unit-eigenvalue Jordan blocks, block sums, unit diagonals), medium exponents also on "
    "exact rational rotations and hermitian non-involutions, exponents up to 10**6 on float unitaries; 4 and 5 "
    "controls at once; in 'spelled' (every third case), 'bigpow' (every second) the chain is followed on the SAME gate "
    "object by the chain with one number changed to a neighbour (n +- 1, another q) and by the first chain again; the "
    "replace_params cases also take spelled numbers and exact parameters (Fraction, sympy numbers, multiples of pi); "
    "plus class 'near_structured': custom gates (numeric definitions and parametrised definitions evaluated at tiny "
    "parameters) whose matrices miss being hermitian / the identity / diagonal / real / an involution / symmetric / "
    "unitary by 1e-13 .. 1e-6, under dagger / controlled / integer power chains holding at least one dagger; plus class "
    "'spelled_entries': custom gates whose non-real entries are exact numbers not written with the imaginary unit "
    "((-1)**(p/q), roots of negative numbers, acos(2), (-1)**t at an exact rational t) next to I, exp(I*pi*p/q), Python "
    "complex and sympy Float spellings, as diagonal, phase-permutation and dense 2x2 matrices; class 'siblings' pushes "
    "two different gates A, B, A through one chain in which a name-hiding wrapper (exp: every Exponential is called "
    "'Exponential'; controlled: 'Control') is followed by one or two further modifiers of every kind"
)
ASSUMPTIONS = [
    "the base gate's own matrix is taken as given (C02); every modifier step is judged against a numpy/scipy "
    "reference applied to the matrix the library reported before the step",
    "a fractional power 1/q is judged by R^q = M (the root is not unique); the reference then continues from R",
    "tolerance 1e-8 relative to the largest entry (sympy float linear algebra), 1e-6 for q-th powers of roots; a "
    "dagger / controlled step on a gate that holds no power / exp wrapper is entry-wise (conjugation, block placement: "
    "nothing is recomputed) and is judged to 1e-13",
    "exceptions raised inside sympy's own matrix power / exponential are loud, not silently wrong: such "
    "steps are counted as out-of-domain, the chain is cut there",
    "an integer power with |e| > 3 of a matrix whose entries are Gaussian rationals is judged in exact arithmetic "
    "(rv.ref.exactmat, binary exponentiation on Fractions): an exact result must equal it, a floating point result "
    "agree to 1e-8; other matrices are judged against numpy up to |e| = 16, unitary ones up to |e| = 2**20, beyond "
    "that not at all (a floating point reference of U^e loses |e| * 1e-16)",
    "an integer exponent beyond 2**20 held in a floating point type (float, sympy.Float, Decimal) is not judged: "
    "sympy evaluates lambda**e at 15 digits, the phase is lost to |e| * 1e-16 (observed: [[0,-1],[-i,0]].power("
    "float(2**53 - 1)) is off by 0.38); exactness at any size is demanded of integer types only (int, numpy "
    "integers, sympy.Integer, Fraction)",
    "a root of a matrix with floating point entries and two eigenvalues closer than 1e-5 that does not power back is "
    "not judged (divided difference of nearly equal numbers, e.g. diagonal entries -2/3 exact and float(-2/3)); "
    "matrices with exact entries are always judged",
    "numpy floats as exponents and numpy numbers as gate parameters are not generated (sympy 1.9 x numpy 2)",
]
DECIDING = ["step:dagger", "step:controlled", "step:power_int", "step:power_frac", "step:exp",
            "hook:dagger", "hook:controlled", "hook:power", "hook:exp", "replace-params", "num_qubits", "params",
            "spelled-exponent", "power-exact", "power-beyond-2^53"]
EXHAUSTIVE = {"k7_targets": "the listed witnesses of known finding K7", "k8_targets": "the listed witnesses of known finding K8", "pairs_exh": "all 81 ordered pairs of the modifiers {dagger, controlled(1), controlled(2), "
                           "power(-1), power(0), power(2), power(1/2), power(1/3), exp} on each base gate of a fixed list "
                           "(3 base gates quick / 8 thorough)"}
BUDGET = {"quick": (4, 34, 134), "thorough": (16, 220, 100000)}
CASE_TIMEOUT = {"quick": 12, "thorough": 40}
K1 = "K1-dagger-of-fractional-power"
K7 = "K7-fractional-power-of-unevaluated-root"
K8 = "K8-exponential-of-defective-float-matrix"
TOL = 1e-8


def classes(tier):
    return ["builtin", "custom", "custom_structured", "nonunitary", "siblings", "symbolic", "replace", "k1_targets",
            "spelled", "bigpow", "near_structured", "spelled_entries", "k7_targets", "k8_targets", "pairs_exh",
            "reread", "after_failure"]


# ----------------------------------------------------------------------------- reference
def _tol(ref):
    return TOL * max(1.0, float(np.abs(ref).max()) if ref.size else 1.0)


def _norm_exp(e):
    """exact value (Fraction) of a real number given in any spelling - Python int / float, numpy integer / float,
    fractions.Fraction, decimal.Decimal, sympy Integer / Rational / Float - or None (bool, non-finite, anything
    else: outside the quantifier)"""
    try:
        if isinstance(e, (bool, np.bool_)):
            return None
        if isinstance(e, (int, np.integer)):
            return Fraction(int(e))
        if isinstance(e, (float, np.floating)):
            return Fraction(float(e)) if math.isfinite(e) else None
        if isinstance(e, Fraction):
            return e
        if isinstance(e, decimal.Decimal):
            return Fraction(e) if e.is_finite() else None
        if isinstance(e, sympy.Rational):
            return Fraction(int(e.p), int(e.q))
        if isinstance(e, sympy.Float):
            f = float(e)
            if not math.isfinite(f):
                return None
            return Fraction(f)
    except Exception:
        return None
    return None


def _norm_count(k):
    """control count as a Python int, whatever integer type spelled it; None if it is not an integer >= 1"""
    v = _norm_exp(k) if not isinstance(k, (float, np.floating, sympy.Float, decimal.Decimal)) else None
    if v is None or v.denominator != 1 or v < 1:
        return None
    return int(v)


def _frac_q(e):
    """q if e == 1/q for an integer q >= 2 (within float rounding), else None"""
    v = _norm_exp(e)
    if v is None or v == 0 or v.denominator == 1:
        return None
    try:
        q = round(1 / v)
    except Exception:
        return None
    if q >= 2 and abs(Fraction(1, q) - v) < Fraction(1, 10**12):
        return q
    return None


def _is_int(e):
    v = _norm_exp(e)
    return v is not None and v.denominator == 1


ENTRYWISE_TOL = 1e-13


def _entrywise(gate):
    """no Power / Exponential anywhere in the gate: its matrix is the base gate's closed form, conjugated / placed in
    blocks entry by entry - no linear algebra is redone, so a dagger / controlled step on it is exact up to the
    rounding of one evaluation (where a power or exp sits below, Power.dagger re-associates as wrapped.dagger.power(e)
    and sympy's floating point linear algebra is run again: 1e-8 there)"""
    from orquestra.quantum.circuits import _gates as G

    g = gate
    while True:
        if isinstance(g, (G.Power, G.Exponential)):
            return False
        if isinstance(g, (G.ControlledGate, G.Dagger)):
            g = g.wrapped_gate
            continue
        return isinstance(g, G.MatrixFactoryGate)


def _step_tol(prev_gate, ref):
    scale = max(1.0, float(np.abs(ref).max()) if ref.size else 1.0)
    return (ENTRYWISE_TOL if _entrywise(prev_gate) else TOL) * scale


def _has_neg_real_eig(M):
    try:
        ev = np.linalg.eigvals(np.asarray(M, dtype=complex))
    except Exception:
        return False
    return bool(np.any((np.abs(ev.imag) < 1e-9 * np.maximum(1, np.abs(ev))) & (ev.real < -1e-12)))


def _frac_powers_inside(gate):
    """[(q, wrapped gate)] of every Power wrapper with a non-integer exponent in the nesting of ``gate``"""
    from orquestra.quantum.circuits import _gates as G

    out = []
    g = gate
    for _ in range(12):
        if isinstance(g, G.Power) and not _is_int(g.exponent):
            out.append((g.exponent, g.wrapped_gate))
        if hasattr(g, "wrapped_gate"):
            g = g.wrapped_gate
        else:
            break
    return out


def _k1_applies(prev_gate, M_prev, got):
    """mechanism of K1: the gate being daggered contains a non-integer power of a matrix with an
    eigenvalue on the negative real axis, and the observed matrix is still a root of the right thing:
    observed^Q == (M_prev^Q)^dagger, Q = product of the root orders"""
    fr = _frac_powers_inside(prev_gate)
    if not fr:
        return False
    Q = 1
    trigger = False
    for e, w in fr:
        q = _frac_q(e)
        if q is None:
            # general non-integer exponent p: use the denominator of a small rational
            v = _norm_exp(e)
            if v is None:
                return False
            q = v.limit_denominator(16).denominator
        Q *= q
        try:
            if _has_neg_real_eig(GC.to_np(w.matrix)):
                trigger = True
        except Exception:
            pass
    if not trigger or Q > 64:
        return False
    try:
        lhs = np.linalg.matrix_power(got, Q)
        rhs = L.adjoint(np.linalg.matrix_power(M_prev, Q))
    except Exception:
        return False
    return L.maxdiff(lhs, rhs) <= 1e-6 * max(1.0, float(np.abs(rhs).max()))


_MCACHE = {}


def _matrix_of(gate):
    """numeric matrix of a (frozen, immutable) gate object, computed once per case"""
    hit = _MCACHE.get(id(gate))
    if hit is not None and hit[0] is gate:
        if isinstance(hit[1], Exception):
            raise hit[1]
        return hit[1]
    try:
        Ms = gate.matrix
        M = GC.to_np(Ms)
    except Exception as e:
        _MCACHE[id(gate)] = (gate, e, None)
        raise
    _MCACHE[id(gate)] = (gate, M, Ms)
    return M


def _exact_of(gate):
    """((Re, Im), exact) of the matrix the gate reported (see rv.ref.exactmat.from_sympy) or None when its entries
    are not Gaussian rationals; computed once per case from the matrix ``_matrix_of`` obtained"""
    hit = _MCACHE.get(id(gate))
    if hit is None or hit[0] is not gate:
        try:
            _matrix_of(gate)
        except Exception:
            return None
        hit = _MCACHE.get(id(gate))
    if hit[2] is None or isinstance(hit[1], Exception):
        return None
    if len(hit) == 3:
        try:
            ex = EX.from_sympy(hit[2])
        except Exception:
            ex = None
        hit = hit + (ex,)
        _MCACHE[id(gate)] = hit
    return hit[3]


def _frac_close(A, B, rel):
    """exact matrices A, B agree entrywise within rel * max(1, largest |entry of B|) (all in exact arithmetic)"""
    (ar, ai), (br, bi) = A, B
    scale = max([Fraction(1)] + [abs(x) for part in (br, bi) for row in part for x in row])
    tol = Fraction(rel) * scale
    worst = Fraction(0)
    for pa, pb in ((ar, br), (ai, bi)):
        for ra, rb in zip(pa, pb):
            for x, y in zip(ra, rb):
                d = abs(Fraction(x) - Fraction(y))
                if d > worst:
                    worst = d
    return worst <= tol, worst / scale


def _root_ill_conditioned(prev_gate, M_prev):
    """a matrix with floating point entries and two eigenvalues closer than 1e-5 (equal in exact arithmetic, apart by
    rounding, e.g. one diagonal entry -2/3 exact and the other float(-2/3)): its root is a divided difference
    (f(a) - f(b)) / (a - b) of nearly equal numbers, nothing can be demanded of it in floating point.  Matrices
    with exact entries never qualify: nothing is rounded there"""
    ex = _exact_of(prev_gate)
    if ex is not None and ex[1]:
        return False
    try:
        Ms = _MCACHE[id(prev_gate)][2]
        if Ms is None or not Ms.has(sympy.Float):
            return False
        ev = np.linalg.eigvals(np.asarray(M_prev, dtype=complex))
    except Exception:
        return False
    scale = max(1.0, float(np.abs(ev).max()))
    return any(abs(ev[i] - ev[j]) < 1e-5 * scale for i in range(len(ev)) for j in range(i))


FLOAT_REF_MAX_EXP = 2**20  # a floating point reference of U^e loses |e| * 1e-16: trusted up to here, for unitary U only


def _int_power_verdict(prev_gate, M_prev, new_gate, got, e):
    """judge new_gate.matrix against prev_gate.matrix ** e for an integer e of ANY size.
    -> ("ok" | "ood" | "bad", text).  Exact Gaussian-rational matrices are judged in exact arithmetic (binary
    exponentiation on Fractions; exact results must be equal, floating point results agree to TOL); other matrices
    against numpy, which is only meaningful for moderate exponents"""
    use_exact = abs(e) > 3
    if not use_exact and e < 0:
        with np.errstate(all="ignore"):
            c = np.linalg.cond(M_prev)
        use_exact = not np.isfinite(c) or c > 1e6  # e.g. the inverse of [[1, 2**64], [0, 1]]: exact or not at all
    ex = _exact_of(prev_gate) if use_exact else None
    if ex is not None:
        try:
            ref = EX.power(ex[0], e)
        except ZeroDivisionError:
            return "ood", "singular"
        except EX.TooBig:
            ref = None
        if ref is not None:
            gx = _exact_of(new_gate)
            if gx is not None:
                if ex[1] and gx[1]:
                    same = EX.equal(gx[0], ref)
                    return ("ok", "exact") if same else ("bad", "exact matrices differ: got "
                                                         f"{EX.to_complex(gx[0])}, repeated product is {EX.to_complex(ref)}")
                close, dev = _frac_close(gx[0], ref, TOL)
                return ("ok", "exact-ref") if close else ("bad", f"relative deviation from the exact repeated product {float(dev):.3e}")
            refc = np.array(EX.to_complex(ref), dtype=complex)
            if not np.all(np.isfinite(refc)):
                return "ood", "reference beyond floating point range"
            d = L.maxdiff(got, refc)
            return ("ok", "exact-ref") if d <= _tol(refc) else ("bad", f"max deviation from the exact repeated product {d:.3e}")
    if abs(e) > 16 and (abs(e) > FLOAT_REF_MAX_EXP or not L.is_unitary(M_prev, 1e-9)):
        return "ood", "no trustworthy floating point reference"
    try:
        ref = np.linalg.matrix_power(M_prev, e) if e >= 0 else np.linalg.matrix_power(np.linalg.inv(M_prev), -e)
    except np.linalg.LinAlgError:
        return "ood", "singular"
    cond = np.linalg.cond(M_prev) if e < 0 else 1.0
    if not np.isfinite(cond) or cond > 1e6 or not np.all(np.isfinite(ref)):
        return "ood", "ill-conditioned"
    d = L.maxdiff(got, ref)
    if d > _tol(ref) * max(1.0, cond):
        return "bad", f"max diff {d:.3e}"
    return "ok", "float"


def _k7_applies(prev_gate, M_prev, exponent, q):
    """mechanism of K7: the matrix being raised holds unevaluated sympy powers (left by an inner non-integer
    power) and the discrepancy disappears when those entries are evaluated numerically first"""
    try:
        Ms = prev_gate.matrix
        if not any(e.has(sympy.Pow) for e in Ms):
            return False
        R = GC.to_np(Ms.evalf() ** exponent)
        back = np.linalg.matrix_power(R, q)
        return L.maxdiff(back, M_prev) <= 1e-6 * max(1.0, float(np.abs(M_prev).max()))
    except Exception:
        return False


def _struct_np(g):
    """what the STRUCTURE of a gate object denotes, evaluated with numpy / LAPACK / scipy from the innermost gate's
    own matrix (None where a non-integer power sits in the structure)"""
    from orquestra.quantum.circuits import _gates as G

    if isinstance(g, G.ControlledGate):
        W = _struct_np(g.wrapped_gate)
        return None if W is None else L.controlled(W, g.num_control_qubits)
    if isinstance(g, G.Dagger):
        W = _struct_np(g.wrapped_gate)
        return None if W is None else L.adjoint(W)
    if isinstance(g, G.Exponential):
        W = _struct_np(g.wrapped_gate)
        return None if W is None else L.expm(W)
    if isinstance(g, G.Power):
        v = _norm_exp(g.exponent)
        W = _struct_np(g.wrapped_gate)
        if W is None or v is None or v.denominator != 1 or abs(int(v)) > 64:
            return None
        return np.linalg.matrix_power(W, int(v))
    return _matrix_of(g)


def _k8_applies(new_gate, ref):
    """mechanism of K8: the gate's structure is right - evaluated with scipy / LAPACK it gives the reference - and it
    holds an Exponential whose wrapped matrix has floating-point entries and is (numerically) defective, and whose
    own library matrix is not the exponential of that wrapped matrix: sympy's Matrix.exp went through a Jordan
    form computed in floating point"""
    from orquestra.quantum.circuits import _gates as G

    try:
        S = _struct_np(new_gate)
        if S is None or S.shape != ref.shape or L.maxdiff(S, ref) > 1e-7 * max(1.0, float(np.abs(ref).max())):
            return False
        g = new_gate
        while not isinstance(g, G.MatrixFactoryGate):
            if isinstance(g, G.Exponential):
                Ws = g.wrapped_gate.matrix
                W = GC.to_np(Ws)
                if any(e.has(sympy.Float) for e in Ws) and W.shape[0] >= 3:
                    _vals, V = np.linalg.eig(W)
                    own = GC.to_np(g.matrix)
                    good = L.expm(W)
                    if np.linalg.cond(V) > 1e6 and L.maxdiff(own, good) > 1e-6 * max(1.0, float(np.abs(good).max())):
                        return True
            g = g.wrapped_gate
        return False
    except Exception:
        return False


def _sympy_internal(exc):
    """exception raised from inside sympy (not from orquestra code)"""
    tb = exc.__traceback__
    last = None
    while tb is not None:
        last = tb.tb_frame.f_code.co_filename
        tb = tb.tb_next
    return last is not None and ("/sympy/" in last or "/mpmath/" in last)


def judge_step(mon, kind, arg, prev_gate, M_prev, new_gate, where):
    """Compare new_gate (= prev_gate after one modifier) with the reference.
    returns the numeric matrix of new_gate or None if the chain must stop."""
    name = f"{where}:{kind}"
    try:
        got = _matrix_of(new_gate)
    except Exception as e:
        if _sympy_internal(e):
            mon.out_of_domain(name)
            mon.note("sympy-cannot-compute:" + kind)
            return None
        mon.violation(f"{kind}-matrix-raises", f"{prev_gate} -> {kind}{arg!r}: {e!r}")
        return None
    k = prev_gate.num_qubits
    if kind == "controlled":
        raw_arg, arg = arg, _norm_count(arg)
        if arg is None:
            mon.out_of_domain(name)
            return None
        if type(raw_arg) is not int:
            mon.note("control-count-spelling:" + type(raw_arg).__name__)
    exp_nq = k + (arg if kind == "controlled" else 0)
    if new_gate.num_qubits != exp_nq:
        mon.violation("num_qubits", f"{prev_gate}.{kind}{arg!r} reports {new_gate.num_qubits} qubits, expected {exp_nq}")
    else:
        mon.ok("num_qubits")
    if tuple(new_gate.params) != tuple(prev_gate.params):
        mon.violation("params", f"{prev_gate}.{kind}{arg!r} reports params {new_gate.params!r}, expected {prev_gate.params!r}")
    else:
        mon.ok("params")
    if got.shape != (2**exp_nq, 2**exp_nq):
        mon.violation(f"{kind}-shape", f"{prev_gate}.{kind}{arg!r}: shape {got.shape}")
        return None
    if not np.all(np.isfinite(got)):
        mon.out_of_domain(name)
        return None
    if kind == "dagger":
        ref = L.adjoint(M_prev)
        if _entrywise(prev_gate):
            mon.note("dagger-judged-entrywise")
        if L.maxdiff(got, ref) > _step_tol(prev_gate, ref):
            known = K1 if _k1_applies(prev_gate, M_prev, got) else (K8 if _k8_applies(new_gate, ref) else None)
            mon.violation("dagger-matrix", f"({prev_gate}).dagger: max|M - adjoint| = {L.maxdiff(got, ref):.3e}", known=known)
            return got if known == K1 else None
    elif kind == "controlled":
        ref = L.controlled(M_prev, arg)
        if L.maxdiff(got, ref) > _step_tol(prev_gate, ref):
            mon.violation("controlled-matrix", f"({prev_gate}).controlled({arg}): max diff {L.maxdiff(got, ref):.3e}",
                          known=K8 if _k8_applies(new_gate, ref) else None)
            return None
    elif kind == "exp":
        ref = L.expm(M_prev)
        if L.maxdiff(got, ref) > _tol(ref) * 10:
            mon.violation("exp-matrix", f"({prev_gate}).exp: max|M - expm| = {L.maxdiff(got, ref):.3e}",
                          known=K8 if _k8_applies(new_gate, ref) else None)
            return None
    elif kind in ("power_int", "power_frac", "power"):
        v = _norm_exp(arg)
        if v is None:
            mon.out_of_domain(name)
            return got
        plain = type(arg) in (int, float)
        if v.denominator == 1:
            e = int(v)
            if abs(e) > FLOAT_REF_MAX_EXP and isinstance(arg, (float, np.floating, sympy.Float, decimal.Decimal)):
                # an exponent held in floating point is processed in floating point (sympy evaluates lambda**e at 15
                # digits: the phase is lost to |e| * 1e-16); exactness at any size is demanded of integer types only
                mon.out_of_domain(name)
                mon.note("floating-point-exponent-beyond-2^20")
                return None
            verdict, text = _int_power_verdict(prev_gate, M_prev, new_gate, got, e)
            if verdict == "ood":
                mon.out_of_domain(name)
                mon.note("int-power-not-judged:" + text)
                return None
            if verdict == "bad":
                mon.violation("power-int-matrix", f"({prev_gate}).power({arg!r}): {text}"[:1500])
                return None
            if text.startswith("exact"):
                mon.ok("power-exact")
            if abs(e) > 2**53:
                mon.ok("power-beyond-2^53")
            if abs(e) > 3:
                mon.note(f"int-exponent-bits:{min(128, 8 * ((abs(e).bit_length() + 7) // 8))}{'-' if e < 0 else '+'}")
            name = f"{where}:power_int" if where == "step" else name
        else:
            q = _frac_q(v)
            if q is None:
                mon.out_of_domain(name)
                return got
            back = np.linalg.matrix_power(got, q)
            if L.maxdiff(back, M_prev) > 1e-6 * max(1.0, float(np.abs(M_prev).max())):
                known = K7 if _k7_applies(prev_gate, M_prev, arg, q) else None
                if known is None and _root_ill_conditioned(prev_gate, M_prev):
                    mon.out_of_domain(name)
                    mon.note("ill-conditioned-root-of-float-matrix")
                    return None
                mon.violation("power-frac-matrix", f"({prev_gate}).power({arg!r}) [= 1/{q}]: max|R^{q} - M| = {L.maxdiff(back, M_prev):.3e}",
                              known=known)
                return None
            name = f"{where}:power_frac" if where == "step" else name
        if not plain:
            mon.ok("spelled-exponent")
            mon.note("exponent-spelling:" + type(arg).__name__)
    mon.ok(name)
    return got


# ----------------------------------------------------------------------------- passive hooks
def _gate_in_domain(g):
    from orquestra.quantum.circuits import _gates as G

    if not isinstance(g, (G.MatrixFactoryGate, G.ControlledGate, G.Dagger, G.Power, G.Exponential)):
        return False
    try:
        return g.num_qubits <= 5 and not g.free_symbols and not GC.has_numpy_params(g)
    except Exception:
        return False


def _mk_modifier_hook(kind):
    def post(mon, call):
        name = f"hook:{'power' if kind == 'power' else kind}"
        g = call.args[0]
        if not _gate_in_domain(g):
            mon.out_of_domain(name)
            return
        arg = None
        if kind in ("controlled", "power"):
            arg = call.args[1] if len(call.args) > 1 else next(iter(call.kwargs.values()), None)
            if kind == "controlled" and (_norm_count(arg) is None or g.num_qubits + _norm_count(arg) > 6):
                mon.out_of_domain(name)
                return
            if kind == "power" and _norm_exp(arg) is None:
                mon.out_of_domain(name)
                return
        if call.exc is not None:
            mon.violation(f"{kind}-raises", f"({g}).{kind}({'' if arg is None else arg}): {call.exc!r}")
            return
        try:
            M_prev = _matrix_of(g)
        except Exception:
            mon.out_of_domain(name)
            return
        if not np.all(np.isfinite(M_prev)):
            mon.out_of_domain(name)
            return
        judge_step(mon, kind, arg, g, M_prev, call.result, "hook")

    return post


def install(mon, reach):
    from orquestra.quantum.circuits import _gates as G

    for cls in (G.MatrixFactoryGate, G.ControlledGate, G.Dagger, G.Power, G.Exponential):
        def _raw(c, a):
            # where the class gets the attribute from - itself or a (private) base class that gate kinds share
            for k in c.__mro__:
                if a in k.__dict__:
                    return k.__dict__[a]
            return None
        for attr in ("dagger", "controlled", "power", "exp", "replace_params", "matrix"):
            raw = _raw(cls, attr)
            if raw is not None:
                reach.watch(raw, f"{cls.__name__}.{attr}")
        for attr in ("dagger", "controlled", "power", "exp"):
            mon.hook_method(cls, attr, post=_mk_modifier_hook(attr), name=f"{cls.__name__}.{attr}")
    mon.max_depth = 1  # judge the call the driver (or a test) makes; re-association internals are its implementation


# ----------------------------------------------------------------------------- generators
CHEAP = {"X", "Y", "Z", "I", "S", "CNOT", "CZ", "SWAP", "Delay"}
NO_EXP = {"T", "RZ"}  # sympy's exp of these matrices (unevaluated exp(I*x) entries) does not return


def _may_append(chain, m, base_nq, cheap, jordan_ok=True, max_jordan_width=4, dense=False):
    """cost model of the pinned sympy: a Jordan-form operation (fractional power, exp) is affordable once
    on a structured matrix; a second one on the resulting float matrix, or an inverse after one, is only
    affordable for diagonal / permutation bases ("cheap"); a fractional power after exp fails inside sympy"""
    kind = m[0]
    width = base_nq + sum(x[1] for x in chain if x[0] == "controlled")
    n_j = sum(1 for x in chain if x[0] in ("power_frac", "exp"))
    seen_exp = any(x[0] == "exp" for x in chain)
    if kind in ("power_frac", "exp"):
        if not jordan_ok or width > max_jordan_width:
            return False
        if dense and width > 1:
            return False
        if kind == "exp" and (seen_exp or width >= 3):
            return False
        if kind == "power_frac" and seen_exp:
            return False
        if kind == "exp" and any(x[0] == "power_frac" for x in chain):
            # exp over a fractional power hides K1 (dagger of the root) inside the exponential, where the
            # root-of-the-adjoint classifier cannot recognise it: the known finding is observed on chains
            # without exp, and exp is observed on chains without fractional powers
            return False
        if n_j >= 1 and not cheap:
            return False
        if n_j >= 2:
            return False
    if kind == "power_int" and m[1] < 0:
        if n_j >= 1 and not cheap:
            return False
        if dense and width >= 3:
            return False
    if kind == "power_int" and dense and width >= 3 and abs(m[1]) > 2:
        return False
    return True


def _rand_chain(rng, base_nq, max_width, max_len, allow, *, cheap=False, jordan_ok=True, max_jordan_width=4,
                dense=False, focus=None):
    """``focus`` = (kind1, kind2): the chain is forced to contain that ordered pair of adjacent modifiers
    where the cost model allows it, so that every re-association rule is met early in every run"""
    chain = []
    width = base_nq
    n = rng.randint(1, max_len)
    forced = list(focus) if focus else []
    n_prefix = rng.randint(0, max(0, n - 2)) if forced else 0
    for i in range(max(n, len(forced))):
        kinds = [k for k in allow]
        if forced and i >= n_prefix:
            kinds = [forced.pop(0)]
        if width >= max_width:
            kinds = [k for k in kinds if k != "controlled"]
        if not kinds:
            break
        kind = rng.choice(kinds)
        if kind == "controlled":
            m = ("controlled", rng.randint(1, min(3, max_width - width)))
        elif kind == "power_int":
            m = ("power_int", rng.choice([-3, -2, -1, 0, 1, 2, 3]))
        elif kind == "power_frac":
            m = ("power_frac", 1 / rng.choice([2, 3, 4]))
        elif kind == "exp":
            m = ("exp",)
        else:
            m = ("dagger",)
        if not _may_append(chain, m, base_nq, cheap, jordan_ok, max_jordan_width, dense):
            m = ("dagger",) if "dagger" in allow else None
        if m is None:
            continue
        if m[0] == "controlled":
            width += m[1]
        chain.append(m)
    return chain


def _nu_chain(rng, base_nq, max_width, max_len, info):
    """chain over a non-unitary base gate.  Identities that hold for unitary matrices only relate the adjoint and
    the inverse (U^dagger = U^-1, (U^dagger)^-n = U^n, ...): 60 % of the chains are made to contain both a dagger
    and an integer power (negative three times out of four; rarely so when the matrix is singular), in either
    order, anywhere in the chain"""
    all_mods = ["dagger", "controlled", "power_int", "power_frac", "exp"]
    cheap, dense = info["cheap"], info["dense"]
    mjw = 2 if cheap else 1
    raw = _rand_chain(rng, base_nq, max_width, max_len, all_mods, cheap=cheap, dense=dense, max_jordan_width=mjw)
    if rng.random() < 0.6:
        e = rng.choice([1, 2, 3])
        if rng.random() < (0.75 if info["invertible"] else 0.2):
            e = -e
        raw = raw[: max(0, max_len - 2)]
        # an inverse after a Jordan-form operation is affordable on the cheap flavours only
        first_j = next((i for i, m in enumerate(raw) if m[0] in ("power_frac", "exp")), len(raw))
        hi = len(raw) if cheap else first_j
        for m in rng.sample([("dagger",), ("power_int", e)], 2):
            raw.insert(rng.randint(0, hi), m)
            hi += 1
    # validate against the cost model; modifiers that are not affordable at their place are dropped
    chain, width = [], base_nq
    for m in raw:
        if m[0] == "controlled" and width + m[1] > max_width:
            continue
        if m[0] == "power_frac" and any(x[0] == "power_frac" for x in chain):
            continue  # nested roots are K7 territory (observed by k7_targets)
        if m[0] == "power_int" and m[1] < 0 and width >= 2 and any(x[0] == "exp" for x in chain):
            continue  # inverting a >= 4x4 matrix of unevaluated exp(...) entries does not return in time
        if m[0] == "power_int" and abs(m[1]) > 2 and not cheap and any(x[0] in ("power_frac", "exp") for x in chain):
            continue  # products of matrices of unevaluated radicals / exponentials grow too fast
        if not _may_append(chain, m, base_nq, cheap, True, mjw, dense):
            continue
        chain.append(m)
        if m[0] == "controlled":
            width += m[1]
    return chain or [("dagger",)]


def _chain_str(chain):
    """modifiers with their arguments; an argument in a spelling other than plain int / float carries its label
    (third element of the modifier tuple, see _respell)"""
    out = []
    for m in chain:
        if len(m) > 2:
            out.append(f"{m[0]}[{m[2]}]")
        elif len(m) > 1:
            out.append(f"{m[0]}[{m[1]}]" if isinstance(m[1], int) and abs(m[1]) >= 10**6 else f"{m[0]}[{m[1]:.6g}]")
        else:
            out.append(m[0])
    return ".".join(out)


def _respell(rng, chain, p=0.75):
    """the same chain with the numbers given to power / controlled spelled in other types (rv.gen.exponents): equal
    values, so equal gates.  At least one argument is respelled when the chain has one"""
    idx = [i for i, m in enumerate(chain) if len(m) > 1]
    if not idx:
        return list(chain)
    must = rng.choice(idx)
    out = []
    for i, m in enumerate(chain):
        if len(m) == 1 or (i != must and rng.random() > p):
            out.append(m)
            continue
        if m[0] == "controlled":
            kinds = [k for k in GE.fitting_int_spellings(m[1], GE.COUNT_SPELLINGS) if k != "int" or i != must]
            obj, label = GE.spell_count(rng, m[1], rng.choice(kinds))
        elif m[0] == "power_frac":
            kinds = [k for k in GE.FRAC_SPELLINGS if k != "float" or i != must]
            obj, label = GE.spell_unit_fraction(rng, round(1 / m[1]), rng.choice(kinds))
        else:
            kinds = [k for k in GE.fitting_int_spellings(m[1]) if k != "int" or i != must]
            obj, label = GE.spell_integer(rng, m[1], rng.choice(kinds))
        out.append((m[0], obj, label))
    return out


def _neighbour_chain(rng, chain):
    """the same chain with ONE number changed to a near-by value (an integer exponent by +-1, a unit fraction to another
    q, a control count by +-1 within 1..2 extra): run after the original on the same gate object, and the original
    again after it, anything remembered per gate / per coarse key (float(e), int(e), round(e), e % 2**k, type) goes stale"""
    idx = [i for i, m in enumerate(chain) if m[0] in ("power_int", "power_frac")] or [i for i, m in enumerate(chain) if len(m) > 1]
    if not idx:
        return None
    i = rng.choice(idx)
    m = chain[i]
    v = _norm_exp(m[1])
    if v is None:
        return None
    if m[0] == "power_frac":
        q = round(1 / v)
        obj, label = GE.spell_unit_fraction(rng, rng.choice([x for x in (2, 3, 4) if x != q]))
    elif m[0] == "power_int":
        n = int(v)
        n2 = n + rng.choice([-1, 1]) if abs(n) > 3 else rng.choice([x for x in (-3, -2, -1, 0, 1, 2, 3) if x != n and (x < 0) == (n < 0)] or [n + 1])
        kinds = GE.fitting_int_spellings(n2)
        obj, label = GE.spell_integer(rng, n2, "int" if rng.random() < 0.5 else rng.choice(kinds))
    else:
        k = int(v)
        obj, label = GE.spell_count(rng, 1 if k > 1 else 2)
    return list(chain[:i]) + [(m[0], obj, label)] + list(chain[i + 1:])


def _nontrivial(chain):
    return len(chain) >= 2 and len({m[0] for m in chain}) >= 2


def _run_chain(ctx, gate, desc, chain, assignment=None):
    """apply the chain step by step through the public API; each step is judged twice: by the
    passive hook on the modifier (hook:*) and here against the running reference (step:*)"""
    mon = ctx.mon
    g = gate
    _MCACHE.clear()
    try:
        M = GC.gate_np(g, assignment) if assignment else _matrix_of(g)
    except Exception as e:
        if _sympy_internal(e):
            return None
        raise
    for m in chain:
        kind = m[0]
        arg = m[1] if len(m) > 1 else None
        try:
            new = GC.apply_modifier(g, m)
        except Exception as e:
            ctx.check(f"step:{kind}", False, f"({g}).{kind}({arg}) raised {e!r}")
            return None
        if assignment:
            # symbolic gate: evaluate matrices at the assignment (dagger / controlled only)
            try:
                got = GC.gate_np(new, assignment)
            except Exception as e:
                ctx.check(f"step:{kind}", False, f"({g}).{kind}: matrix raised {e!r}")
                return None
            ref = L.adjoint(M) if kind == "dagger" else L.controlled(M, arg)
            ok = got.shape == ref.shape and L.maxdiff(got, ref) <= _tol(ref)
            ok = ok and new.num_qubits == g.num_qubits + (arg or 0) and tuple(new.params) == tuple(g.params)
            ctx.check(f"step:{kind}", ok, lambda: f"symbolic ({g}).{kind}({arg}) at {assignment}: matrix/num_qubits/params differ from reference")
            if not ok:
                return None
            M = got
        else:
            mon._in_monitor += 1
            try:
                M = judge_step(mon, kind, arg, g, M, new, "step")
            finally:
                mon._in_monitor -= 1
            if M is None:
                return None
        g = new
    return g


BASES_EXH = ["X", "S", "RX(0.7)", "H", "CNOT", "GPi2(0.4)", "custom1q", "XX(1.1)"]
MODS_EXH = [("dagger",), ("controlled", 1), ("controlled", 2), ("power_int", -1), ("power_int", 0), ("power_int", 2),
            ("power_frac", 1 / 2), ("power_frac", 1 / 3), ("exp",)]


def _base_by_name(name, nprng, rng):
    from orquestra.quantum import circuits as C

    if name == "custom1q":
        d = GC.numeric_custom_def(rng, np.random.default_rng(12345), 1, "ExhCustom")
        return d()
    if "(" in name:
        n, a = name[:-1].split("(")
        return getattr(C, n)(*[float(x) for x in a.split(",")])
    return getattr(C, name)


def run_case(ctx):
    rng, nprng = ctx.rng, ctx.nprng
    cls = ctx.cls
    max_width = 4 if ctx.quick else 5
    max_len = 4 if ctx.quick else 5
    tab = GC.builtin_table()
    all_mods = ["dagger", "controlled", "power_int", "power_frac", "exp"]
    if cls == "builtin":
        names = sorted(tab)
        name = names[ctx.index % len(names)] if rng.random() < 0.7 else rng.choice(names)
        allow = list(all_mods)
        kind_pairs = [(a, b) for a in all_mods for b in all_mods if not (a == "exp" and b in ("exp", "power_frac"))]
        focus = kind_pairs[(ctx.index // 3) % len(kind_pairs)] if rng.random() < 0.7 else None
        if focus and name in NO_EXP and "exp" in focus:
            focus = None
        jordan = rng.random() < 0.6 or bool(focus and set(focus) & {"exp", "power_frac"})
        if not jordan:
            allow = ["dagger", "controlled", "power_int"]
        # special angles (multiples of pi/4) make sympy's Jordan form of the phase gates' matrices
        # pathologically slow (RZ(pi/4) = T up to phase): chains with exp / fractional powers use generic angles
        g, d = GC.rand_builtin(rng, max_nq=2, names=[name], special=0.0 if jordan else 0.5)
        if name in NO_EXP and "exp" in allow:
            allow.remove("exp")
        chain = _rand_chain(rng, g.num_qubits, max_width, max_len, allow, cheap=name in CHEAP,
                            max_jordan_width=1 if name == "U3" else 4, focus=focus)
        ctx.describe(f"{d}.{_chain_str(chain)}", _nontrivial(chain))
        _run_chain(ctx, g, d, chain)
        return
    if cls == "custom":
        nq = rng.choice([1, 1, 2, 2, 3])
        d = GC.numeric_custom_def(rng, nprng, nq, f"Cust{ctx.index}")
        g = d()
        chain = _rand_chain(rng, nq, max(max_width, nq), max_len, all_mods, dense=True)
        ctx.describe(f"custom{nq}q#{ctx.index}.{_chain_str(chain)}", _nontrivial(chain))
        _run_chain(ctx, g, "custom", chain)
        return
    if cls == "custom_structured":
        # custom gates whose matrices are diagonal / complex symmetric / hermitian / real orthogonal /
        # phase-permutation: any shortcut keyed on such structure (e.g. "symmetric => self-adjoint") shows here
        nq = rng.choice([1, 1, 2])
        d, flavor = GC.structured_custom_def(rng, nprng, nq, f"Struct{ctx.index}")
        g = d()
        cheap = flavor in ("diag", "phaseperm")
        chain = _rand_chain(rng, nq, max_width, max_len, all_mods, cheap=cheap, dense=not cheap,
                            focus=(("dagger", rng.choice(all_mods[:3])) if rng.random() < 0.5 else None))
        if not any(m[0] == "dagger" for m in chain):
            chain.insert(rng.randint(0, len(chain)), ("dagger",))
        ctx.describe(f"custom-{flavor}{nq}q#{ctx.index}.{_chain_str(chain)}", _nontrivial(chain))
        ctx.mon.note("custom-flavor:" + flavor)
        _run_chain(ctx, g, "custom", chain)
        return
    if cls == "nonunitary":
        # gates need not be unitary (any 2^n square matrix is accepted): every flavour of non-unitary matrix, made
        # through every route, under the modifier chains; shortcuts that are right for unitary / normal /
        # diagonalisable / invertible matrices only show here
        nq = rng.choice([1, 1, 1, 2])
        flavor = NU.FLAVORS[ctx.index % len(NU.FLAVORS)] if rng.random() < 0.8 else None
        if ctx.index % 6 == 5:
            # three qubits (8 x 8: beyond the sizes for which closed forms are in anybody's head): exact structured
            # matrices only, short chains built around an inverse / a dagger, within 4 qubits
            nq = 3
            flavor = rng.choice(["triangular", "diag", "scaled_perm", "jordan"])
            g, d, info = NU.nonunitary_gate(rng, nprng, nq, f"NU{ctx.index}", flavor=flavor)
            core = [("power_int", rng.choice([-1, -1, -2, 2, -3]))]
            pre = rng.choice([[], [], [("dagger",)], [("power_int", -1)]])
            post = rng.choice([[], [("dagger",)], [("controlled", 1)], [("power_int", -1)]])
            chain = pre + core + post
            ctx.mon.note("nonunitary-three-qubit-base")
        else:
            g, d, info = NU.nonunitary_gate(rng, nprng, nq, f"NU{ctx.index}", flavor=flavor)
            chain = _nu_chain(rng, nq, max_width, max_len, info)
        M0 = GC.to_np(g.matrix)
        nonunitary = not L.is_unitary(M0, 1e-6)
        ctx.describe(f"{d}.{_chain_str(chain)}", nonunitary and _nontrivial(chain))
        ctx.mon.note("nonunitary-flavor:" + info["flavor"])
        ctx.mon.note("nonunitary-route:" + info["route"])
        ctx.mon.note("nonunitary-input" if nonunitary else "nonunitary-generator-gave-unitary")
        if any(m[0] == "dagger" for m in chain) and any(m[0] == "power_int" and m[1] < 0 for m in chain):
            ctx.mon.note("nonunitary-dagger-and-inverse-in-chain")
        _run_chain(ctx, g, d, chain)
        return
    if cls == "siblings":
        # two DIFFERENT gates that share name-level identity once wrapped (every ControlledGate is called
        # "Control", every Exponential "Exponential") and have equal parameters, pushed through the same chain
        # one after the other in the same process: anything memoised per (name, params) goes stale here
        from orquestra.quantum import circuits as C

        groups = [["X", "Y", "Z", "H", "S", "SX", "I"], ["CNOT", "CZ", "SWAP", "ISWAP"]]
        pgroups = [["RX", "RY", "PHASE", "RH", "GPi", "GPi2"], ["XX", "YY", "ZZ", "XY", "CPHASE"]]
        if rng.random() < 0.5:
            a, b = rng.sample(rng.choice(groups), 2)
            ga, gb = getattr(C, a), getattr(C, b)
            da, db = a, b
        else:
            a, b = rng.sample(rng.choice(pgroups), 2)
            ang = round(rng.uniform(-3, 3), 4)
            ga, gb = getattr(C, a)(ang), getattr(C, b)(ang)
            da, db = f"{a}({ang})", f"{b}({ang})"
        nq = ga.num_qubits
        cheap = a in CHEAP and b in CHEAP
        # the inner wrapper HIDES the base gate from every name-level view ("Exponential", "Control"); around it, every
        # kind of modifier as a further step: the outer step must still see which gate is inside
        hiders = [("controlled", 1), ("controlled", rng.randint(1, 2))]
        if nq == 1 and a not in NO_EXP and b not in NO_EXP:
            hiders += [("exp",), ("exp",), ("exp",)]
        pre = rng.choice([[], [], [], [("dagger",)], [("power_int", 2)], [("power_int", -1)]])
        posts = [("dagger",), ("controlled", 1), ("power_int", 2), ("power_int", 3), ("power_int", -1), ("power_int", -2),
                 ("power_frac", 1 / 2), ("power_frac", 1 / 3)]
        if a not in NO_EXP and b not in NO_EXP:
            # exp ABOVE a name-hiding wrapper as well (X.controlled(1).exp then Z.controlled(1).exp): the exponential
            # of a "Control" must still know which gate is controlled (seeded C07-1 / C07-18 once slipped through a
            # rewrite of this class that kept exp only as the inner wrapper)
            posts += [("exp",), ("exp",), ("exp",)]
        wrappers = pre + [rng.choice(hiders)] + [rng.choice(posts) for _ in range(rng.choice([1, 1, 2]))]
        chain = []
        for m in wrappers:
            if m[0] == "controlled" and nq + sum(x[1] for x in chain if x[0] == "controlled") + m[1] > max_width:
                continue
            if _may_append(chain, m, nq, cheap):
                chain.append(m)
        ctx.describe(f"siblings {da} | {db} | {da} through .{_chain_str(chain)}", len(chain) >= 2)
        for g, d in ((ga, da), (gb, db), (ga, da)):
            _run_chain(ctx, g, d, chain)
        return
    if cls == "symbolic":
        syms = [sympy.Symbol(s) for s in rng.sample(GC.SYMBOL_POOL, 3)]
        g, d = GC.rand_base_gate(rng, nprng, 2, symbolic=True, symbols=syms, custom=0.25, allow_u3=rng.random() < 0.1)
        chain = _rand_chain(rng, g.num_qubits, max_width, max_len, ["dagger", "controlled"])
        a = GC.rand_assignment(rng, sorted(g.free_symbols, key=str))
        ctx.describe(f"symbolic {d}.{_chain_str(chain)} at {sorted((str(k), v) for k, v in a.items())}", _nontrivial(chain))
        _run_chain(ctx, g, d, chain, assignment=a)
        return
    if cls == "spelled":
        # the NUMBER handed to power / controlled (and, one case in five, to the base gate) in every type a caller may
        # hold it in: the same value must give the same gate whether it is a float, a Fraction, a sympy Rational /
        # Integer / Float, a Decimal or a numpy integer.  Every (modifier, modifier) pair with a power in it is
        # forced in turn, so each re-association rule that rebuilds a Power / ControlledGate sees such numbers
        route = ["builtin", "custom", "builtin", "nonunitary", "exact_param"][ctx.index % 5]
        pairs = [(a, b) for a in all_mods for b in all_mods
                 if (a.startswith("power") or b.startswith("power")) and not (a == "exp" and b in ("exp", "power_frac"))]
        focus = pairs[(ctx.index // 5) % len(pairs)]
        if route == "nonunitary":
            nq = rng.choice([1, 1, 2])
            g, d, info = NU.nonunitary_gate(rng, nprng, nq, f"SpNU{ctx.index}")
            chain = _nu_chain(rng, nq, max_width, max_len, info)
        elif route == "custom":
            nq = rng.choice([1, 1, 2])
            g, d = GC.numeric_custom_def(rng, nprng, nq, f"SpCust{ctx.index}")(), f"custom{nq}q#{ctx.index}"
            chain = _rand_chain(rng, nq, max_width, max_len, all_mods, dense=True, focus=focus)
        elif route == "exact_param":
            # parameters in exact spellings leave unevaluated cos(1/6), exp(I*pi/7) ... in the matrix: no Jordan forms
            # (nor inverses: RH and U3 are left out, negative exponents are mirrored)
            pn = sorted(n for n, e in tab.items() if e["kind"] == "param" and n not in ("U3", "RH") and e["nq"] <= 2)
            name = pn[(ctx.index // 5) % len(pn)]
            sp = [GE.spell_param(rng) for _ in range(tab[name]["nparams"])]
            g, d = tab[name]["ref"](*[o for o, _ in sp]), f"{name}({', '.join(l for _, l in sp)})"
            f2 = tuple("power_int" if k in ("power_frac", "exp") else k for k in focus)
            chain = _rand_chain(rng, g.num_qubits, max_width, max_len, ["dagger", "controlled", "power_int"], focus=f2)
            chain = [("power_int", abs(m[1])) if m[0] == "power_int" else m for m in chain]
            ctx.mon.note("exact-parameter-spelling")
        else:
            names = sorted(tab)
            name = names[(ctx.index // 5) % len(names)] if rng.random() < 0.7 else rng.choice(names)
            allow = [m for m in all_mods if not (m == "exp" and name in NO_EXP)]
            if "exp" in focus and name in NO_EXP:
                focus = ("power_frac", "dagger")
            g, d = GC.rand_builtin(rng, max_nq=2, names=[name], special=0.0)
            chain = _rand_chain(rng, g.num_qubits, max_width, max_len, allow, cheap=name in CHEAP,
                                max_jordan_width=1 if name == "U3" else 4, focus=focus)
        if not any(len(m) > 1 for m in chain):
            chain.append(("power_int", rng.choice([-2, -1, 2, 3])))
        chain = _respell(rng, chain)
        other = _neighbour_chain(rng, chain) if ctx.index % 3 == 0 else None
        if other is not None and sum(m[1] for m in other if m[0] == "controlled") > sum(m[1] for m in chain if m[0] == "controlled"):
            other = None  # never wider than the cost model allowed
        ctx.describe(f"spelled {d}.{_chain_str(chain)}" + (f" | then .{_chain_str(other)} | then the first again" if other else ""),
                     _nontrivial(chain))
        _run_chain(ctx, g, d, chain)
        if other is not None:
            ctx.mon.note("history-of-neighbouring-numbers")
            _run_chain(ctx, g, d, other)
            _run_chain(ctx, g, d, chain)
        return
    if cls == "bigpow":
        # integer exponents of every size (the property says "all integer exponents"): around the sizes where integer
        # types, doubles and sympy's choice of algorithm change (rv.gen.exponents.big_integer), both signs and parities.
        # Two cases in three use gates with exact Gaussian-rational matrices of bounded / polynomially growing powers,
        # judged in exact arithmetic at any exponent; one in three float unitaries at exponents up to 2**20
        if ctx.index % 8 == 7:
            # sizes of the other integer a modifier takes: 4 and 5 controls at once (32x32, 64x64), also reached in steps
            g, d = GC.rand_builtin(rng, max_nq=1, special=0.3)
            k = rng.choice([4, 5])
            split = rng.random() < 0.4
            chain = [("controlled", k - 2), ("controlled", 2)] if split else [("controlled", k)]
            if rng.random() < 0.6:
                chain.insert(rng.randint(0, len(chain)), rng.choice([("dagger",), ("power_int", rng.choice([-1, 2]))]))
            if rng.random() < 0.4:
                chain = _respell(rng, chain, p=0.5)
            ctx.describe(f"bigpow[wide-controls] {d}.{_chain_str(chain)}", len(chain) >= 2)
            ctx.mon.note("bigpow-band:wide-controls")
            _run_chain(ctx, g, d, chain)
            return
        if ctx.index % 3 != 2:
            flavor = GE.EXACT_FLAVORS[(ctx.index // 3) % len(GE.EXACT_FLAVORS)] if rng.random() < 0.8 else rng.choice(GE.EXACT_FLAVORS)
            # matrices whose powers grow exponentially: one qubit (sympy's exact products of 4x4 ones take seconds)
            nq = rng.choice([1, 1, 2]) if flavor in GE.ANY_EXPONENT else 1
            g, d, flavor = GE.exact_gate(rng, nq, f"Ex{ctx.index}", flavor)
            n, band = GE.big_integer(rng, None if flavor in GE.ANY_EXPONENT else "medium")
        else:
            flavor = "float-unitary"
            # (RH, U3 and dense two-qubit matrices take sympy seconds per large power: left to the small exponents)
            name = rng.choice(["RX", "RY", "RZ", "PHASE", "GPi", "GPi2", "XX", "YY", "XY", "CPHASE", "H", "T", "custom"])
            if name == "custom":
                nq = 1
                g, d = GC.numeric_custom_def(rng, nprng, nq, f"BigCust{ctx.index}")(), f"custom{nq}q#{ctx.index}"
            else:
                g, d = GC.rand_builtin(rng, max_nq=2, names=[name], special=0.0)
            n, band = GE.big_integer(rng, rng.choice(["medium", "threshold", "threshold"]))
        any_exp = flavor in GE.ANY_EXPONENT
        pre = rng.choice([[], [], [], [("dagger",)], [("controlled", 1)], [("power_int", -1)], [("dagger",), ("controlled", 1)]])
        posts = [[], [], [("dagger",)], [("controlled", 1)], [("dagger",), ("controlled", 1)], [("power_int", -1)]]
        if any_exp:
            posts.append([("power_int", GE.big_integer(rng)[0])])
        post = rng.choice(posts)
        if g.num_qubits + sum(m[1] for m in pre + post if m[0] == "controlled") > 3:
            post = [m for m in post if m[0] != "controlled"]
        chain = pre + [("power_int", n)] + post
        if rng.random() < 0.45:
            chain = _respell(rng, chain, p=0.5)
        other = _neighbour_chain(rng, [m for m in chain]) if ctx.index % 2 == 0 else None
        ctx.describe(f"bigpow[{flavor}/{band}] {d}.{_chain_str(chain)}" + (f" | then .{_chain_str(other)} | then the first again" if other else ""), True)
        ctx.mon.note("bigpow-band:" + band)
        ctx.mon.note("bigpow-flavor:" + flavor)
        _run_chain(ctx, g, d, chain)
        if other is not None:
            ctx.mon.note("history-of-neighbouring-numbers")
            _run_chain(ctx, g, d, other)
            _run_chain(ctx, g, d, chain)
        return
    if cls == "replace":
        # replace_params commutes with modifying
        pnames = sorted(n for n, e in tab.items() if e["kind"] == "param" and n != "U3")
        name = rng.choice(pnames + ["custom"])
        if name == "custom":
            npar = rng.randint(1, 2)
            d = GC.symbolic_custom_def(rng, rng.choice([1, 2]), f"RP{ctx.index}", npar)
            factory = d
        else:
            factory = tab[name]["ref"]
            npar = tab[name]["nparams"]
        p1 = tuple(GC.rand_angle(rng, 0.0) for _ in range(npar))
        p2 = tuple(GC.rand_angle(rng, 0.0) for _ in range(npar))
        if name != "custom" and ctx.index % 5 == 2:
            # the gate that gets NEW parameters was built at values at which it happens to be self-adjoint / the
            # identity (0, exact pi, 2 pi): whatever was concluded from those values must not outlive them
            p1 = tuple(rng.choice([0, 0.0, sympy.Integer(0), sympy.pi, 2 * sympy.pi]) for _ in range(npar))
            ctx.mon.note("replace:old-parameters-at-a-special-value")
        # one case in four: the old and / or the new parameters in exact spellings (Fraction, sympy numbers)
        exact_params = name not in ("custom", "RH") and ctx.index % 4 == 3
        if exact_params:
            p2 = tuple(GE.spell_param(rng)[0] for _ in range(npar))
            if rng.random() < 0.5:
                p1 = tuple(GE.spell_param(rng)[0] for _ in range(npar))
        g1, g2 = factory(*p1), factory(*p2)
        allow = ["dagger", "controlled", "power_int", "power_frac"] + (
            ["exp"] if g1.num_qubits == 1 and name not in NO_EXP and name != "custom" else [])
        if exact_params:
            allow = ["dagger", "controlled", "power_int"]  # unevaluated cos(1/6) ...: no Jordan forms
        chain = _rand_chain(rng, g1.num_qubits, max_width, max_len, allow, cheap=name in CHEAP,
                            dense=(name == "custom"))
        if exact_params:
            chain = [("power_int", abs(m[1])) if m[0] == "power_int" else m for m in chain]  # symbolic inverses are slow
        if ctx.index % 2 == 1:
            # the numbers given to the modifiers in other types: replace_params rebuilds every wrapper from them
            if not any(len(m) > 1 for m in chain):
                chain.append(("power_int", rng.choice([-2, -1, 2, 3])) if exact_params or rng.random() < 0.5
                             else ("power_frac", 1 / rng.choice([2, 3, 4])))
            chain = _respell(rng, chain)
        ctx.describe(f"replace {name}{p1}->{p2}.{_chain_str(chain)}", _nontrivial(chain))
        a, b = g1, g2
        for m in chain:
            a, b = GC.apply_modifier(a, m), GC.apply_modifier(b, m)
        try:
            r = a.replace_params(p2)
        except Exception as e:
            ctx.check("replace-params", False, f"({a}).replace_params({p2}) raised {e!r}")
            return
        ok = (r == b) and tuple(r.params) == tuple(p2) and r.num_qubits == b.num_qubits
        detail = f"({a}).replace_params({p2}) = {r!r} but modifying the gate built with the new parameters gives {b!r}"
        if ok:
            try:
                Mr, Mb = GC.to_np(r.matrix), GC.to_np(b.matrix)
                ok = L.maxdiff(Mr, Mb) <= _tol(Mb)
                detail = f"({a}).replace_params({p2}): matrix differs from that of {b} by {L.maxdiff(Mr, Mb):.3e}"
            except Exception as e:
                if not _sympy_internal(e):
                    raise
        ctx.check("replace-params", ok, detail)
        return
    if cls == "near_structured":
        # custom gates whose matrices MISS being hermitian / the identity / diagonal / real / an involution by
        # 1e-13 .. 1e-6 (rv.gen.custom_near): a structure test with a tolerance answers for the neighbour
        nq = rng.choice([1, 1, 1, 2])
        flavor = CN.NEAR_FLAVORS[ctx.index % len(CN.NEAR_FLAVORS)] if rng.random() < 0.8 else None
        g, d, info = CN.near_structured_gate(rng, nprng, nq, f"Near{ctx.index}", flavor)
        chain = _rand_chain(rng, nq, max_width, max_len, ["dagger", "controlled", "power_int"], dense=True,
                            focus=(("dagger", rng.choice(["dagger", "controlled", "power_int"])) if rng.random() < 0.5 else None))
        if not any(m[0] == "dagger" for m in chain):
            chain.insert(rng.randint(0, len(chain)), ("dagger",))
        ctx.describe(f"{d} {nq}q#{ctx.index}.{_chain_str(chain)}", True)
        ctx.mon.note("near-flavor:" + info["flavor"])
        ctx.mon.note("near-route:" + info["route"])
        ctx.mon.note(f"near-eps:{info['eps']:g}")
        _run_chain(ctx, g, d, chain)
        return
    if cls == "spelled_entries":
        # custom gates whose non-real entries are exact numbers written without the imaginary unit ((-1)**(1/4), roots
        # of negative numbers, (-1)**t at a rational t) next to the usual spellings
        nq = rng.choice([1, 1, 2])
        g, d, info = CN.spelled_entries_gate(rng, nq, f"Sp{ctx.index}")
        chain = _rand_chain(rng, nq, max_width, max_len, ["dagger", "controlled", "power_int"], dense=(info["flavor"] == "dense1q"),
                            focus=(("dagger", rng.choice(["dagger", "controlled", "power_int"])) if rng.random() < 0.5 else None))
        chain = [("power_int", abs(m[1])) if m[0] == "power_int" else m for m in chain]  # exact inverses of radicals are slow
        if not any(m[0] == "dagger" for m in chain):
            chain.insert(rng.randint(0, len(chain)), ("dagger",))
        ctx.describe(f"{d} {nq}q#{ctx.index}.{_chain_str(chain)}", True)
        ctx.mon.note("spelled-entries-flavor:" + info["flavor"])
        _run_chain(ctx, g, d, chain)
        return
    if cls == "k1_targets":
        # keep the known finding observed and check its classifier stays narrow
        from orquestra.quantum import circuits as C

        base = rng.choice([C.X, C.Y, C.Z, C.H, C.CNOT, C.CZ, C.SWAP, C.GPi(rng.uniform(-3, 3)), C.S, C.RX(math.pi),
                           C.RZ(rng.uniform(-3, 3)), C.PHASE(math.pi), C.T, C.ISWAP])
        q = rng.choice([2, 3, 4])
        pre = rng.choice([[], [("controlled", 1)], [("dagger",)]])
        post = rng.choice([[("dagger",)], [("controlled", 1), ("dagger",)], [("dagger",), ("dagger",)],
                           [("power_int", 2), ("dagger",)]])
        chain = pre + [("power_frac", 1 / q)] + post
        ctx.describe(f"k1 {base}.{_chain_str(chain)}", True)
        _run_chain(ctx, base, str(base), chain)
        return
    if cls == "k7_targets":
        # keep the known finding K7 observed: a non-integer power of a gate that already carries a non-integer
        # power (two witnesses, enumerated; slow in sympy, hence only these)
        from orquestra.quantum import circuits as C

        targets = [("PP", 2, 4), ("ISWAP", 3, 2)] if ctx.quick else [("PP", 2, 4), ("ISWAP", 3, 2), ("PP", 2, 3), ("ISWAP", 3, 3)]
        if ctx.index >= len(targets):
            raise Exhausted()
        name, q1, q2 = targets[ctx.index]
        if name == "PP":
            base = C.CustomGateDefinition("PhasePerm", sympy.Matrix([[0, -1], [-1j, 0]]), ())()
        else:
            base = C.ISWAP
        chain = [("power_frac", 1 / q1), ("power_frac", 1 / q2)]
        ctx.describe(f"k7 {name}.{_chain_str(chain)}", True)
        _run_chain(ctx, base, name, chain)
        return
    if cls == "reread":
        # ONE gate object asked for its matrix again after the caller has edited, in place, the matrix it got the
        # first time (a matrix handed out is the caller's), and its neighbours in the chain asked again too: a result
        # kept on the instance and handed out itself, or a matrix that IS another gate's matrix (M**1 is M), shows
        from orquestra.quantum import circuits as C

        names = ["X", "S", "H", "SX", "CNOT", "CZ", "RX", "RY", "PHASE", "GPi2", "XX", "custom"]
        nm = rng.choice(names)
        if nm == "custom":
            g, d = GC.numeric_custom_def(rng, nprng, 1, f"Reread{ctx.index}")(), "custom1q"
        elif nm in ("RX", "RY", "PHASE", "GPi2", "XX"):
            ang = round(rng.uniform(-3, 3), 3)
            g, d = getattr(C, nm)(ang), f"{nm}({ang})"
        else:
            g, d = getattr(C, nm), nm
        cheap = nm in CHEAP
        steps = [("power_int", 1), ("power_int", 2), ("power_int", -1), ("power_int", 3), ("dagger",), ("controlled", 1)]
        if g.num_qubits == 1 and nm not in NO_EXP:
            steps += [("exp",), ("exp",), ("power_frac", 1 / 2)]
        chain = []
        for m in [rng.choice(steps) for _ in range(rng.randint(1, 3))]:
            if m[0] == "controlled" and g.num_qubits + sum(x[1] for x in chain if x[0] == "controlled") + 1 > max_width:
                continue
            if _may_append(chain, m, g.num_qubits, cheap, dense=(nm == "custom")):
                chain.append(m)
        ctx.describe(f"reread {d}.{_chain_str(chain)}", len(chain) >= 1)
        gates = [g]
        for m in chain:
            try:
                gates.append(GC.apply_modifier(gates[-1], m))
            except Exception as e:
                ctx.check("step:" + m[0], False, f"({gates[-1]}).{m[0]} raised {e!r}")
                return
        first = []
        for x in gates:
            try:
                first.append(GC.to_np(x.matrix))
            except Exception as e:
                if _sympy_internal(e):
                    return
                raise
        for k, x in enumerate(gates):
            Ms = x.matrix
            try:
                Ms[0, 0] = Ms[0, 0] + 5
                Ms[Ms.shape[0] - 1, 0] = 7
            except Exception:
                ctx.mon.note("reread:matrix-handed-out-is-immutable")
            for j, y in enumerate(gates):
                again = GC.to_np(y.matrix)
                ctx.check("matrix-reread", again.shape == first[j].shape and L.maxdiff(again, first[j]) <= 1e-12 * max(1.0, float(np.abs(first[j]).max())),
                          lambda: f"the caller edited in place the matrix that ({x}).matrix had handed out; ({y}).matrix, asked again, "
                                  f"differs from what it was by {L.maxdiff(again, first[j]):.3e}")
        ctx.mon.note("reread:gates-asked-again-after-the-caller-edited-a-handed-out-matrix")
        return
    if cls == "after_failure":
        # a request that RAISES for a good reason (the inverse of a singular matrix; through a hashable gate object
        # and through a custom definition, plain and below a control), and then forty further, perfectly legal power /
        # exponential gates in the same process: bookkeeping that the failed evaluation left behind must not make a
        # later legal request fail or answer for another gate
        from orquestra.quantum import circuits as C
        from orquestra.quantum.circuits import _gates as G

        def projector():
            return sympy.Matrix([[1, 0], [0, 0]])

        kind = rng.choice(["factory", "factory", "custom"])
        if kind == "factory":
            base = G.MatrixFactoryGate(f"Proj{ctx.index % 3}", projector, (), 1)
        else:
            base = C.CustomGateDefinition(f"ProjDef{ctx.index % 3}", sympy.Matrix([[1, 0], [0, 0]]), ())()
        bad = base.power(rng.choice([-1, -2]))
        if rng.random() < 0.4:
            bad = bad.controlled(1)
        ctx.describe(f"after_failure {kind} {bad} then 40 legal gates", True)
        try:
            bad.matrix
            ctx.check("singular-inverse-refused", False, f"({bad}).matrix of a singular matrix returned a matrix")
        except Exception:
            ctx.mon.note("after_failure:a-legitimately-failing-evaluation-happened")
        pool = [C.RX, C.RY, C.PHASE, C.RZ]
        for j in range(40):
            gj = pool[j % 4](round(0.01 * (j + 1) + rng.random() * 1e-3, 6))
            mj = [("power_int", rng.choice([2, 3])), ("power_int", -1), ("exp",)][j % 3 if pool[j % 4] is not C.RZ else 0]
            _run_chain(ctx, gj, f"{gj}", [mj])
        return
    if cls == "k8_targets":
        # keep the known finding K8 observed: the exponential of the inverse of a 4 x 4 Jordan block with eigenvalue
        # -1-3j given in floating point (of 35 eigenvalues probed only this one makes sympy's float Jordan form fail),
        # directly and through the re-association in which the thorough tier met it
        from orquestra.quantum import circuits as C

        targets = [[("power_int", -1), ("exp",)],
                   [("dagger",), ("power_int", -1), ("exp",), ("controlled", 1), ("dagger",)]]
        if ctx.index >= len(targets):
            raise Exhausted()
        a_, b_ = sympy.symbols("a b")
        Mj = sympy.Matrix([[b_, 0, 0, 0], [a_, b_, 0, 0], [0, a_, b_, 0], [0, 0, a_, b_]])
        base = C.CustomGateDefinition("JordanBlock4", Mj, (a_, b_))(1, (-1 - 3j))
        chain = targets[ctx.index]
        ctx.describe(f"k8 JordanBlock4(1, -1-3j).{_chain_str(chain)}", True)
        _run_chain(ctx, base, "JordanBlock4(1, -1-3j)", chain)
        return
    if cls == "pairs_exh":
        nb = 3 if ctx.quick else len(BASES_EXH)
        space = [(b, m1, m2) for b in BASES_EXH[:nb] for m1 in MODS_EXH for m2 in MODS_EXH]
        if ctx.index >= len(space):
            raise Exhausted()
        b, m1, m2 = space[ctx.index]
        chain = [m1, m2]
        g = _base_by_name(b, nprng, rng)
        cheap = b.split("(")[0] in CHEAP
        if not (_may_append([], m1, g.num_qubits, cheap, dense=(b == "custom1q"))
                and _may_append([m1], m2, g.num_qubits, cheap, dense=(b == "custom1q"))):
            ctx.describe(f"pair {b}.{_chain_str(chain)} (skipped: unaffordable in the pinned sympy, see RULE)", False)
            ctx.mon.note("pairs-skipped-unaffordable")
            return
        ctx.describe(f"pair {b}.{_chain_str(chain)}", m1[0] != m2[0])
        _run_chain(ctx, g, b, chain)
        return
    raise ValueError(cls)
