"""C05 - circuits survive JSON serialisation unchanged in structure and meaning."""
import io
import json
import math
import os
import random
import re
import tempfile
import zlib

import numpy as np
import sympy

from ..gen import circuits as GC
from ..gen import numbers as GN
from ..gen import symbols as GS
from ..ref import linalg as L

ID = "C05"
LEVEL = "exploration"
TECHNIQUE = (
    "runtime monitoring: shadow-state hooks (to_dict records text -> original circuit, the deserialisers and "
    "loaders are judged against it) with an independent structural walker and numeric sampling"
)
RULE = (
    "seeded generator by input class (built-in / symbolic / wrapped / custom / mixed / circuit sets / edge: empty, "
    "idle qubits, huge and tiny numbers, shared / duplicated / conflicting definitions, name collisions of the text "
    "format) x transport (dict+JSON text, path, open file, StringIO); custom gate arguments cover every printing "
    "family of complex numbers (Python complex with 17-digit / exponent / zero / whole parts, sympy complex numbers, "
    "complex coefficients of expressions); circuit sets share definitions, or give every circuit its OWN definitions "
    "under the same gate names (a name is unique within one circuit only), or repeat a circuit; history = several "
    "unrelated circuits / sets re-using the same gate names are all serialised first, then read back in another "
    "order, one text twice; channel = names outside ASCII (symbols, indexed symbols, definition parameters, custom "
    "gate names; NFKC-stable identifiers) and exact numbers spelled as Fraction / sympy Integer beyond 2**64 x what "
    "the caller hands in: a text file it opened itself in one of 10 encodings (ascii, latin-1, cp1252, cp437, "
    "iso8859-7, utf-8, utf-8-sig, utf-16, utf-32, platform default), one handle for writing and reading (w+), a "
    "handle used for another circuit before, white space around the JSON text, written through an ascii / utf-8 "
    "handle and read by path or the reverse, str / PathLike / bytes paths, non-ASCII file names, a path that holds "
    "an older longer file; non-trivial = the circuit contains a wrapper, a custom gate or a non-numeric parameter; "
    "distinct = distinct canonical case strings"
)
ASSUMPTIONS = [
    "oracle = own structural walker (types, names, nesting, controls, exponents, definitions, qubits) + parameter "
    "comparison: Python numbers exactly (1 ulp = known finding K6), bare symbols identical, symbol-free sympy numbers "
    "and expressions at 1e-12 relative (expressions at 3 random assignments, same free symbols)",
    "meaning: the innermost gate's matrix is evaluated on both sides at 3 assignments (arity <= 3) and the wrapper "
    "chain is compared structurally; whole-gate matrices are additionally compared when the chain holds only "
    "controlled / dagger / integer powers (no sympy matrix exp or fractional power: they can hang)",
    "library == is demanded only when parameters are exactly representable (Python numbers, symbols, rationals, "
    "expressions whose Float atoms survive str()); symbol names are identifiers, no Python keywords; custom gate "
    "names avoid built-in names, the globals of _builtin_gates and the bare wrapper markers (Control, Exponential, Dagger, ^) "
    "but may contain them (P_Dagger, Y^0.5, Control2, exp^P)",
    "files: a target / source is a path (read and written as UTF-8 by the library) or a TEXT file object; a file "
    "object is read back with the encoding it was written with, or by path when it was written as ascii / utf-8 "
    "(nothing is demanded of a latin-1 file read as UTF-8, nor of binary handles: Readable.read returns str); "
    "names outside ASCII are NFKC-stable identifiers (Python's parser normalises identifiers: the micro sign "
    "U+00B5 comes back as Greek mu - a question of the text format, not generated here)",
]
DECIDING = ["to_dict", "circuit_from_dict", "circuitset_from_dict", "save_circuit", "load_circuit",
            "save_circuitset", "load_circuitset", "collect_defs", "deserialize_expr",
            "roundtrip-eq", "roundtrip-free-symbols", "roundtrip-matrices"]
BUDGET = {"quick": (4, 25, 146), "thorough": (16, 200, 100000)}
CASE_TIMEOUT = {"quick": 15, "thorough": 30}

K3 = "K3-expression-text-name-ambiguity"
K6 = "K6-float-parameter-one-ulp"

_TMP = None
_G = None  # orquestra.quantum.circuits._gates
_C = None  # ._circuit
_REG = {}  # canonical JSON text of a to_dict result -> original object (Circuit or list)
_EXPR = {}  # text -> list of originals printed as that text
_REG_MAX = 4000
_JUDGED_EXC = [None]  # the exception object a hook has already turned into a verdict


def classes(tier):
    return ["builtin", "symbolic", "wrapped", "custom", "mixed", "circuitset", "edge", "history", "channel", "shortlived"]


# ============================================================================ structural walker
def _chain(g):
    """(modifier list outermost first, innermost gate)"""
    mods = []
    for _ in range(64):
        if isinstance(g, _G.ControlledGate):
            mods.append(("C", g.num_control_qubits))
        elif isinstance(g, _G.Dagger):
            mods.append(("D",))
        elif isinstance(g, _G.Power):
            mods.append(("P", g.exponent))
        elif isinstance(g, _G.Exponential):
            mods.append(("E",))
        else:
            return mods, g
        g = g.wrapped_gate
    raise ValueError("wrapper chain too deep")


def _is_custom(base):
    return isinstance(base, _G.MatrixFactoryGate) and isinstance(base.matrix_factory, _G.CustomGateMatrixFactory)


def _defs_used(circuit):
    """own traversal: definitions of the custom gates a circuit uses, in order of appearance"""
    out = []
    for op in circuit.operations:
        g = getattr(op, "gate", None)
        if g is None:
            continue
        _, base = _chain(g)
        if _is_custom(base):
            out.append(base.matrix_factory.gate_definition)
    return out


def _num(e, assign=None):
    """complex value of a number / sympy expression at an assignment (30 digits)"""
    if GS.is_python_number(e):
        return complex(e)
    if assign:
        e = e.xreplace(assign)
    return complex(sympy.N(e, 30))


def _assignments(symbols, rng, k=3):
    symbols = sorted(symbols, key=lambda s: s.name)
    return [{s: sympy.Float(rng.uniform(0.3, 2.7), 30) for s in symbols} for _ in range(k)]


def _ulp_apart(a, b):
    """|a-b| in ulps of a (floats)"""
    if a == b:
        return 0.0
    if not (math.isfinite(a) and math.isfinite(b)):
        return float("inf")
    return abs(a - b) / math.ulp(a)


def cmp_param(p1, p2, rng):
    """('same'|'k6'|'diff', detail).  p1 = original, p2 = image."""
    try:
        if isinstance(p1, bool) or p1 is None:
            return ("same", "") if p1 is p2 else ("diff", f"{p1!r} -> {p2!r}")
        if isinstance(p1, int):
            ok = (GS.is_python_number(p2) or (isinstance(p2, sympy.Expr) and p2.is_number)) and p2 == p1
            return ("same", "") if ok else ("diff", f"int {p1!r} -> {p2!r} ({type(p2).__name__})")
        if isinstance(p1, (float, complex)):
            if not (GS.is_python_number(p2) or (isinstance(p2, sympy.Expr) and not p2.atoms(sympy.Symbol))):
                return "diff", f"number {p1!r} -> {p2!r} ({type(p2).__name__})"
            v = complex(p2) if GS.is_python_number(p2) else complex(sympy.N(p2, 30))
            w = complex(p1)
            if v == w:
                return "same", ""
            u = max(_ulp_apart(w.real, v.real), _ulp_apart(w.imag, v.imag))
            if u <= 1.0:
                return "k6", f"Python number {p1!r} came back as {p2!r} (float {v!r}): {u:.2f} ulp"
            return "diff", f"Python number {p1!r} -> {p2!r} = {v!r} ({u:.3g} ulp)"
        if isinstance(p1, sympy.Symbol):
            ok = type(p2) is type(p1) and p2 == p1
            return ("same", "") if ok else ("diff", f"symbol {p1!r} -> {p2!r} ({type(p2).__name__})")
        if isinstance(p1, sympy.Expr):
            if not isinstance(p2, (sympy.Expr, int, float, complex)):
                return "diff", f"expression {p1} -> {p2!r} ({type(p2).__name__})"
            s1 = p1.atoms(sympy.Symbol)
            s2 = p2.atoms(sympy.Symbol) if isinstance(p2, sympy.Basic) else set()
            if s1 != s2:
                return "diff", f"expression {p1}: symbols {sorted(map(str, s1))} -> {sorted(map(str, s2))} in {p2}"
            if isinstance(p1, (sympy.Integer, sympy.Rational)) and not isinstance(p1, sympy.Float):
                return ("same", "") if p2 == p1 else ("diff", f"rational {p1} -> {p2!r}")
            for a in (_assignments(s1, rng) if s1 else [None]):
                v1, v2 = _num(p1, a), _num(p2, a)
                if v1 != v1 or v2 != v2:  # nan on both sides: no verdict at this point
                    continue
                scale = abs(v1) if not s1 else max(1.0, abs(v1))
                if abs(v1 - v2) > 1e-12 * scale:
                    return "diff", f"expression {p1} -> {p2}: values {v1!r} vs {v2!r} at {a}"
            return "same", ""
    except Exception as e:  # an un-evaluable image is a difference, not a harness error
        return "diff", f"{p1!r} -> {p2!r}: comparison failed with {e!r}"
    return ("same", "") if p1 == p2 else ("diff", f"{p1!r} -> {p2!r}")


def _matrix_at(M, assign):
    if assign:
        M = M.xreplace(assign)
    out = np.empty(M.shape, dtype=complex)
    for i in range(M.shape[0]):
        for j in range(M.shape[1]):
            e = M[i, j]
            out[i, j] = complex(e) if e.is_Number else complex(sympy.N(e, 20))
    return out


def _plain_number(e):
    """a numeric literal a + b*I (no unevaluated function, power or constant)"""
    try:
        return bool(e.is_Number) or (not e.has(sympy.Function, sympy.Pow, sympy.NumberSymbol, sympy.Symbol)
                                     and all(a.is_Number or a is sympy.I for a in e.atoms()))
    except Exception:
        return False


def _param_scale(params):
    """largest magnitude of a number occurring in the parameters (a relative 1e-12 deviation of an
    angle p moves matrix entries by up to |p| * 1e-12)"""
    m = 1.0
    for p in params:
        try:
            if GS.is_python_number(p):
                m = max(m, abs(p))
            elif isinstance(p, sympy.Basic):
                m = max([m] + [abs(complex(f)) for f in p.atoms(sympy.Number)])
        except Exception:
            pass
    return m


def _chain_np(base, mods):
    """numpy evaluation of a wrapper chain (outermost first) of controls / daggers / integer powers on a numeric
    base matrix, inverses by LAPACK (partial pivoting)"""
    W = np.asarray(base, dtype=complex)
    for m in reversed(mods):
        if m[0] == "C":
            d = W.shape[0]
            out = np.eye(d * 2 ** m[1], dtype=complex)
            out[-d:, -d:] = W
            W = out
        elif m[0] == "D":
            W = W.conj().T
        elif m[0] == "P":
            W = np.linalg.matrix_power(W, int(m[1]))
        else:
            raise ValueError(m)
    return W


def cmp_matrix(M1, M2, rng, what, scale=1.0, slack=0.0):
    """element-wise comparison of two sympy matrices by numeric sampling; ``slack`` = absolute allowance on top of
    the relative tolerance (the original's own evaluation error where the library's evaluation is unstable)"""
    if tuple(M1.shape) != tuple(M2.shape):
        return f"{what}: shape {M1.shape} -> {M2.shape}"
    if sympy.ImmutableMatrix(M1) == sympy.ImmutableMatrix(M2):
        return None  # identical expression trees: equal for every assignment
    s1 = M1.atoms(sympy.Symbol)
    s2 = M2.atoms(sympy.Symbol)
    if s1 != s2:
        return f"{what}: matrix symbols {sorted(map(str, s1))} -> {sorted(map(str, s2))}"
    for a in (_assignments(s1, rng) if s1 else [None]):
        A, B = _matrix_at(M1, a), _matrix_at(M2, a)
        d = L.maxdiff(A, B)
        if not d <= 1e-12 * max(1.0, float(np.abs(A).max())) * scale + slack:
            return f"{what}: matrices differ by {d:.3g} at {a}"
    return None


_DEF_CACHE = {}


def cmp_def(d1, d2, rng):
    key = (id(d1), id(d2))
    hit = _DEF_CACHE.get(key)
    if hit is not None and hit[0] is d1 and hit[1] is d2:
        return hit[2]
    why = _cmp_def(d1, d2, rng)
    if len(_DEF_CACHE) > 500:
        _DEF_CACHE.clear()
    _DEF_CACHE[key] = (d1, d2, why)
    return why


def _cmp_def(d1, d2, rng):
    if type(d1) is not type(d2):
        return f"definition type {type(d1).__name__} -> {type(d2).__name__}"
    if d1.gate_name != d2.gate_name:
        return f"definition name {d1.gate_name!r} -> {d2.gate_name!r}"
    o1, o2 = tuple(d1.params_ordering), tuple(d2.params_ordering)
    if len(o1) != len(o2) or any(type(a) is not type(b) or a != b for a, b in zip(o1, o2)):
        return f"definition {d1.gate_name}: params_ordering {o1} -> {o2}"
    return cmp_matrix(d1.matrix, d2.matrix, rng, f"definition {d1.gate_name}")


def cmp_gate(g1, g2, rng, out):
    """appends (kind, detail) to out; kind 'k6' marks the 1-ulp float finding"""
    m1, b1 = _chain(g1)
    m2, b2 = _chain(g2)
    kinds1 = [m[0] for m in m1]
    kinds2 = [m[0] for m in m2]
    if kinds1 != kinds2:
        out.append(("nesting", f"wrapper nesting {kinds1} -> {kinds2} for {g1} -> {g2}"))
        return
    for a, b in zip(m1, m2):
        if a[0] == "C" and (a[1] != b[1] or type(b[1]) is not int):
            out.append(("controls", f"num_control_qubits {a[1]!r} -> {b[1]!r} for {g1}"))
        if a[0] == "P" and (a[1] != b[1] or isinstance(b[1], bool) or not isinstance(b[1], (int, float))):
            out.append(("exponent", f"exponent {a[1]!r} -> {b[1]!r} for {g1}"))
    if type(b1) is not type(b2):
        out.append(("gate-kind", f"{type(b1).__name__} -> {type(b2).__name__} for {g1}"))
        return
    if not isinstance(b1, _G.MatrixFactoryGate):
        out.append(("gate-kind", f"unknown gate type {type(b1).__name__}"))
        return
    if g1.name != g2.name or b1.name != b2.name:
        out.append(("name", f"name {g1.name!r}/{b1.name!r} -> {g2.name!r}/{b2.name!r}"))
    if b1.num_qubits != b2.num_qubits or g1.num_qubits != g2.num_qubits:
        out.append(("arity", f"num_qubits {g1.num_qubits} -> {g2.num_qubits} for {g1}"))
    if bool(b1.is_hermitian) != bool(b2.is_hermitian):
        out.append(("hermitian-flag", f"is_hermitian {b1.is_hermitian} -> {b2.is_hermitian} for {b1}"))
    if _is_custom(b1) != _is_custom(b2):
        out.append(("gate-kind", f"custom {_is_custom(b1)} -> {_is_custom(b2)} for {b1.name}"))
        return
    if _is_custom(b1):
        why = cmp_def(b1.matrix_factory.gate_definition, b2.matrix_factory.gate_definition, rng)
        if why:
            out.append(("definition", why))
    elif b1.matrix_factory is not b2.matrix_factory:
        out.append(("matrix-factory", f"{b1.name}: matrix factory {b1.matrix_factory} -> {b2.matrix_factory}"))
    if len(b1.params) != len(b2.params):
        out.append(("params", f"{b1.name}: {len(b1.params)} params -> {len(b2.params)}: {b2.params}"))
        return
    for i, (p1, p2) in enumerate(zip(b1.params, b2.params)):
        st, why = cmp_param(p1, p2, rng)
        if st == "k6":
            out.append(("k6", f"{b1.name} param {i}: {why}"))
        elif st == "diff":
            out.append(("param", f"{b1.name} param {i}: {why}"))


def _text_tokens(p, names):
    """identifiers that str(p) prints for things that are NOT symbols"""
    if isinstance(p, complex) and p.imag != 0:
        return {"I"}  # a complex literal is printed as 3j and parsed as 3*I
    if not isinstance(p, sympy.Basic):
        return set()
    syms = sorted(p.atoms(sympy.Symbol), key=lambda s: s.name)
    q = p.xreplace({s: sympy.Symbol(f"ZZZZ{i}") for i, s in enumerate(syms)})
    return {t for t in re.findall(r"[A-Za-z_][A-Za-z_0-9]*", str(q)) if not t.startswith("ZZZZ")}


def k3_mechanisms(base, params=None, names=None):
    """which text-format name ambiguities (known finding K3) a gate's parameter list triggers:
    'a' = x together with x[i]; 'b' = symbol Integer/Float beside a numeric literal;
    'c' = symbol named like a sympy constant/function that the same gate's text also prints"""
    params = base.params if params is None else params
    if names is None:
        names = {s.name for p in params for s in GS.symbols_of(p)}
    out = set()
    for n in names:
        b = GS.base_of(n)
        if b is not None and b in names:
            out.add("a")
    has_int = any(isinstance(p, int) or (isinstance(p, sympy.Basic) and p.atoms(sympy.Integer)) for p in params)
    has_float = any(isinstance(p, float) or (isinstance(p, sympy.Basic) and p.atoms(sympy.Float)) for p in params)
    if ("Integer" in names and has_int) or ("Float" in names and has_float):
        out.add("b")
    toks = set()
    for p in params:
        toks |= _text_tokens(p, names)
    if names & toks:
        out.add("c")
    return out


def _k3_predicted(p1, names):
    """value K3(c) predicts for a parameter: sympy constants replaced by the like-named symbol"""
    if isinstance(p1, complex) and "I" in names:
        return sympy.sympify(p1.real) + sympy.sympify(p1.imag) * sympy.Symbol("I")
    if not isinstance(p1, sympy.Basic):
        return p1
    rep = {}
    for const in (sympy.pi, sympy.E, sympy.I):
        if str(const) in names and p1.has(const):
            rep[const] = sympy.Symbol(str(const))
    return p1.xreplace(rep) if rep else p1


def judge_pair(orig, img, rng):
    """Compare an original circuit with its image.  Returns list of (kind, detail, known)."""
    out = []
    if not isinstance(img, _C.Circuit):
        return [("circuit-type", f"image is {type(img).__name__}", None)]
    if img.n_qubits != orig.n_qubits or isinstance(img.n_qubits, bool) or not isinstance(img.n_qubits, int):
        out.append(("width", f"n_qubits {orig.n_qubits!r} -> {img.n_qubits!r}", None))
    if len(img.operations) != len(orig.operations):
        out.append(("operation-count", f"{len(orig.operations)} operations -> {len(img.operations)}", None))
        return out
    for i, (o1, o2) in enumerate(zip(orig.operations, img.operations)):
        if type(o1) is not type(o2):
            out.append(("operation-type", f"op {i}: {type(o1).__name__} -> {type(o2).__name__}", None))
            continue
        q1, q2 = tuple(o1.qubit_indices), o2.qubit_indices
        if not isinstance(q2, tuple) or q1 != tuple(q2) or any(type(q) is not int for q in q2):
            out.append(("qubits", f"op {i} ({o1.gate.name}): qubit_indices {q1} -> {q2!r}", None))
        found = []
        cmp_gate(o1.gate, o2.gate, rng, found)
        _, b1 = _chain(o1.gate)
        mech = k3_mechanisms(b1) if isinstance(b1, _G.MatrixFactoryGate) else set()
        for kind, why in found:
            known = None
            if kind == "k6":
                known = K6
                kind = "param-1ulp"
            elif kind == "param" and "c" in mech:
                # silent variant of K3(c): the constant was read back as the like-named symbol
                names = {s.name for p in b1.params for s in GS.symbols_of(p)}
                _, b2 = _chain(o2.gate)
                pred_ok = len(b1.params) == len(b2.params) and all(
                    cmp_param(_k3_predicted(p1, names), p2, rng)[0] == "same" for p1, p2 in zip(b1.params, b2.params))
                if pred_ok:
                    known = K3
            out.append((kind, f"op {i}: {why}", known))
    return out


def _has_huge_number(circuit):
    for op in circuit.operations:
        for p in _chain(op.gate)[1].params:
            try:
                if GS.is_python_number(p) or (isinstance(p, sympy.Expr) and p.is_number):
                    if abs(complex(p)) > 1e6:
                        return True
                elif isinstance(p, sympy.Basic) and any(abs(f) > 1e6 for f in p.atoms(sympy.Number)):
                    return True
            except Exception:
                return True
    return False


def exactly_representable(circuit):
    for op in circuit.operations:
        _, b = _chain(op.gate)
        for p in b.params:
            if GS.is_python_number(p):
                if isinstance(p, (float, complex)) and not math.isfinite(abs(p)):
                    return False
                continue
            if not GS.floats_exactly_printable(p):
                return False
        if _is_custom(b):
            d = b.matrix_factory.gate_definition
            if not all(GS.floats_exactly_printable(e) for e in d.matrix):
                return False
    return True


def consequences(mon, orig, img, rng, found):
    """the stated consequences: library ==, free symbols, per-gate matrices"""
    if any(k is None or k == K3 for _, _, k in found):
        return  # already refuted (or a K3 image): the consequences add nothing
    if _has_huge_number(orig):
        # library == is an absolute 1e-8 test and cos/sin of 1e22 are decided by the last bit: a relative
        # 1e-17 deviation of the parsed decimal (same float) changes both; the property gives no verdict
        mon.note("consequences not demanded (|numeric parameter| > 1e6)")
        return
    if exactly_representable(orig):
        try:
            eq = (img == orig) and (orig == img)
        except Exception as e:
            eq = False
            mon.violation("roundtrip-eq", f"== raised {e!r} for {describe_circuit(orig)}")
        else:
            if eq:
                mon.ok("roundtrip-eq")
            else:
                mon.violation("roundtrip-eq", f"image != original although the walker found no difference and every "
                              f"parameter is exactly representable: {describe_circuit(orig)} vs {describe_circuit(img)}")
    else:
        mon.note("eq-not-demanded(inexact Float text)")
    fs1, fs2 = list(orig.free_symbols), list(img.free_symbols)
    if fs1 == fs2 and all(type(a) is type(b) for a, b in zip(fs1, fs2)):
        mon.ok("roundtrip-free-symbols")
    else:
        mon.violation("roundtrip-free-symbols", f"free_symbols {fs1} -> {fs2} for {describe_circuit(orig)}")
    bad = None
    n_eval = 0
    for i, (o1, o2) in enumerate(zip(orig.operations, img.operations)):
        m1, b1 = _chain(o1.gate)
        _, b2 = _chain(o2.gate)
        if b1.num_qubits > 3 or b1.name == "U3" and n_eval > 2:
            continue
        try:
            M1 = b1.matrix
        except Exception:
            mon.note("matrix-of-original-not-computable")
            continue
        try:
            M2 = b2.matrix
        except Exception as e:
            bad = f"op {i}: matrix of the image of {b1} raised {e!r}"
            break
        n_eval += 1
        bad = cmp_matrix(M1, M2, rng, f"op {i} ({b1})", _param_scale(b1.params))
        if bad:
            break
        cheap = all(m[0] in ("C", "D") or (m[0] == "P" and isinstance(m[1], int) and abs(m[1]) <= 3) for m in m1)
        if cheap and any(m[0] == "P" and m[1] < 0 for m in m1) and not all(_plain_number(e) for e in M1):
            # sympy's inverse of a matrix with unevaluated entries (cos(2), exp(1.64*I), exp of a complex
            # argument: custom definitions at exact or complex arguments) may not return (environment)
            cheap = False
            mon.note("whole-gate matrix not evaluated (negative power of a matrix with unevaluated entries)")
        if m1 and cheap and o1.gate.num_qubits <= 3 and not (any(m[0] == "P" for m in m1) and o1.gate.free_symbols):
            try:
                W1 = o1.gate.matrix
            except Exception:
                mon.note("matrix-of-original-not-computable")
                continue
            try:
                W2 = o2.gate.matrix
            except Exception as e:
                bad = f"op {i}: whole matrix of the image of {o1.gate} raised {e!r}"
                break
            slack = 0.0
            if any(m[0] == "P" and m[1] < 0 for m in m1):
                # the library inverts through sympy (elimination without numerical pivoting, at the precision of the
                # Float entries): with a tiny pivot the ORIGINAL's own whole-gate matrix is off from a stably
                # computed one by far more than 1e-12, and so is the image's, differently.  The distance between
                # the original's matrix and a LAPACK evaluation of the same chain on the same base matrix bounds
                # what can be asked of original vs image (thorough-tier false alarm, DESIGN 9.17)
                try:
                    R1 = _chain_np(_matrix_at(M1, None), m1)
                    slack = 4 * L.maxdiff(_matrix_at(W1, None), R1)
                    if slack > 1e-12:
                        mon.note("whole-gate matrix of the original is itself off a stable evaluation by > 1e-12")
                except Exception:
                    slack = 0.0
            bad = cmp_matrix(W1, W2, rng, f"op {i} whole gate ({o1.gate})", _param_scale(b1.params), slack)
            if bad:
                break
            mon.note("whole-gate matrices compared")
    if bad:
        mon.violation("roundtrip-matrices", f"{bad}; circuit {describe_circuit(orig)}")
    elif n_eval:
        mon.ok("roundtrip-matrices")


# ============================================================================ descriptions
def describe_gate(g):
    mods, b = _chain(g)
    s = "".join({"C": f"C{m[1] if len(m) > 1 else ''}.", "D": "D.", "P": f"P[{m[1]!r}]." if len(m) > 1 else "P.",
                 "E": "E."}[m[0]] for m in mods)
    name = getattr(b, "name", type(b).__name__)
    if _is_custom(b):
        d = b.matrix_factory.gate_definition
        name = f"custom:{name}<{','.join(map(str, d.params_ordering))}|{zlib.crc32(str(d.matrix).encode()):08x}>"
    ps = getattr(b, "params", ())
    return f"{s}{name}({', '.join(GS.pstr(p) for p in ps)})" if ps else f"{s}{name}"


def describe_circuit(c):
    ops = "; ".join(f"{describe_gate(op.gate)}@{','.join(map(str, op.qubit_indices))}" for op in c.operations)
    return f"Circuit(n={c.n_qubits})[{ops}]"


def is_nontrivial(c):
    for op in c.operations:
        mods, b = _chain(op.gate)
        if mods or _is_custom(b) or any(not GS.is_python_number(p) for p in b.params):
            return True
    return False


# ============================================================================ monitors
def _canon(d):
    return json.dumps(d, sort_keys=True)


def _rng_for(text):
    return random.Random(zlib.crc32(text.encode()))


def _in_domain_circuit(c):
    try:
        return isinstance(c, _C.Circuit) and all(isinstance(op, _G.GateOperation) and
                                                 isinstance(_chain(op.gate)[1], _G.MatrixFactoryGate)
                                                 for op in c.operations)
    except Exception:
        return False


def _register(text, obj):
    if len(_REG) > _REG_MAX:
        _REG.clear()
    _REG[text] = obj


def _defs_conflict(circuits):
    """two different definitions under one name (own comparison)"""
    seen = {}
    rng = random.Random(0)
    for c in circuits:
        for d in _defs_used(c):
            if d.gate_name in seen and seen[d.gate_name] is not d and cmp_def(seen[d.gate_name], d, rng):
                return d.gate_name
            seen.setdefault(d.gate_name, d)
    return None


def _post_to_dict(mon, call):
    obj = call.args[0] if call.args else None
    if isinstance(obj, _C.Circuit):
        name, circuits = "to_dict", [obj]
    elif isinstance(obj, list) and all(isinstance(c, _C.Circuit) for c in obj):
        name, circuits = "to_dict", obj
    else:
        mon.note(f"to_dict[{type(obj).__name__}]")
        return
    if not all(_in_domain_circuit(c) for c in circuits):
        mon.out_of_domain(name)
        return
    conflict = _defs_conflict(circuits) if isinstance(obj, _C.Circuit) else next(
        (n for n in (_defs_conflict([c]) for c in circuits) if n), None)
    if call.exc is not None:
        if call.exc is _JUDGED_EXC[0]:
            return  # raised and judged at the nested collect_custom_gate_definitions / to_dict
        _JUDGED_EXC[0] = call.exc
        if conflict and isinstance(call.exc, ValueError):
            mon.ok(name)
            mon.note("to_dict refused conflicting definitions")
        else:
            mon.violation("to_dict-raises", f"to_dict({[describe_circuit(c) for c in circuits]}) raised {call.exc!r}")
        return
    if conflict:
        mon.violation("conflicting-definitions-accepted", f"two different definitions named {conflict!r} serialised")
        return
    res = call.result
    try:
        text = _canon(res)
    except Exception as e:
        mon.violation("to_dict-not-json", f"result of to_dict is not JSON-serialisable: {e!r}: {res!r:.300}")
        return
    dicts = [res] if isinstance(obj, _C.Circuit) else (res.get("circuits") if isinstance(res, dict) else None)
    bad = None
    if not isinstance(dicts, list) or len(dicts) != len(circuits):
        bad = f"{len(circuits)} circuits -> {res!r:.200}"
    else:
        for c, d in zip(circuits, dicts):
            ops = d.get("operations", [])
            if d.get("n_qubits") != c.n_qubits:
                bad = f"n_qubits {c.n_qubits} written as {d.get('n_qubits')!r}"
            elif len(ops) != len(c.operations):
                bad = f"{len(c.operations)} operations written as {len(ops)}"
            elif any(list(op.qubit_indices) != od.get("qubit_indices") for op, od in zip(c.operations, ops)):
                bad = "qubit_indices written differently"
            else:
                need = sorted({d_.gate_name for d_ in _defs_used(c)})
                have = [x.get("gate_name") for x in d.get("custom_gate_definitions", [])]
                if need != have:
                    bad = f"custom gate definitions needed {need}, written {have}"
            if bad:
                bad = f"{describe_circuit(c)}: {bad}"
                break
    if bad:
        mon.violation("to_dict-content", bad)
    else:
        mon.ok(name)
    old = _REG.get(text)
    if old is not None and old is not obj:
        # two different originals, one text: information was lost by the serialiser
        pairs = list(zip([old] if isinstance(old, _C.Circuit) else old, circuits))
        rng = _rng_for(text)
        for a, b in pairs:
            f = [x for x in judge_pair(a, b, rng) if x[2] is None]
            if f:
                mon.violation("serialisation-collision", f"{describe_circuit(a)} and {describe_circuit(b)} "
                              f"serialise to the same text ({f[0][1]})")
                break
    _register(text, obj)
    if isinstance(obj, list) and isinstance(dicts, list) and len(dicts) == len(circuits):
        for c, d in zip(circuits, dicts):
            try:
                _register(_canon(d), c)
            except Exception:
                pass


def _classify_exception(orig_circuits, exc):
    """known-finding key if the exception is the loud variant of K3 for some gate of the originals"""
    if not isinstance(exc, TypeError):
        return None
    msg = str(exc)
    for c in orig_circuits:
        for op in c.operations:
            _, b = _chain(op.gate)
            mech = k3_mechanisms(b)
            if "a" in mech and ("does not support item assignment" in msg or "not subscriptable" in msg):
                return K3
            if ("b" in mech or "c" in mech) and "object is not callable" in msg:
                return K3
    return None


_PAIRS = {}  # (id(original), id(image)) -> full key of the judged pair
_PAIRS_BAD = {}
_PAIRS_KEEP = {}


def _pair_key(o, i):
    """identity of a judged pair: the two objects and the identities of everything the image holds"""
    try:
        return (id(o), id(i), i.n_qubits, tuple(id(op) for op in i.operations), tuple(id(op) for op in o.operations))
    except Exception:
        return None


def _judge_images(mon, name, origs, imgs, text, exc):
    if exc is not None:
        if exc is _JUDGED_EXC[0]:
            return
        _JUDGED_EXC[0] = exc
        known = _classify_exception(origs, exc)
        mon.violation(f"{name}-raises", f"{name} raised {exc!r} on the serialised form of "
                      f"{[describe_circuit(c) for c in origs]}", known=known)
        return
    if not isinstance(imgs, list) or len(imgs) != len(origs):
        mon.violation(f"{name}-count", f"{len(origs)} circuits -> {imgs!r:.200}")
        return
    rng = _rng_for(text)
    n_bad = 0
    for o, i in zip(origs, imgs):
        # circuitset_from_dict may build its images through circuit_from_dict: the very same
        # (original, image) pair of objects has then been judged a moment ago, with every finding reported
        key = _pair_key(o, i)
        if key is not None and _PAIRS.get(key[:2]) == key:
            n_bad += _PAIRS_BAD.get(key[:2], 0)
            mon.note("image already judged at the nested circuit_from_dict")
            continue
        found = judge_pair(o, i, rng)
        bad = 0
        for kind, why, known in found:
            if known is None:
                bad += 1
            mon.violation(f"roundtrip-{kind}", f"{why}; original {describe_circuit(o)}", known=known)
        consequences(mon, o, i, rng, found)
        n_bad += bad
        if key is not None:
            if len(_PAIRS) > 200:
                _PAIRS.clear()
                _PAIRS_BAD.clear()
                _PAIRS_KEEP.clear()
            _PAIRS[key[:2]] = key
            _PAIRS_BAD[key[:2]] = bad
            _PAIRS_KEEP[key[:2]] = (o, i)  # keeps both alive: ids are not reused while the entry exists
    if not n_bad:
        mon.ok(name)


def _pre_canon(mon, call):
    """canonical text of the dictionary as it is handed in (a deserialiser may consume its input)"""
    d = call.args[0] if call.args else call.kwargs.get("dict_")
    try:
        return _canon(d)
    except Exception:
        return None


def _post_circuit_from_dict(mon, call):
    name = "circuit_from_dict"
    text = call.pre
    if text is None:
        mon.out_of_domain(name)
        return
    orig = _REG.get(text)
    if not isinstance(orig, _C.Circuit):
        mon.out_of_domain(name)
        return
    _judge_images(mon, name, [orig], [call.result], text, call.exc)


def _post_circuitset_from_dict(mon, call):
    name = "circuitset_from_dict"
    text = call.pre
    if text is None:
        mon.out_of_domain(name)
        return
    orig = _REG.get(text)
    if not isinstance(orig, list):
        mon.out_of_domain(name)
        return
    _judge_images(mon, name, orig, call.result, text, call.exc)


def _file_text(f):
    """the text a caller-opened file holds now, decoded the way the caller's handle encodes it"""
    try:
        f.flush()
    except Exception:
        pass
    with open(f.name, "r", encoding=getattr(f, "encoding", None) or "utf-8", newline="") as g:
        return g.read()


def _read_target(target, pos):
    if isinstance(target, (str, bytes, os.PathLike)):
        with open(target, "r", encoding="utf-8") as f:
            return f.read()
    if hasattr(target, "getvalue"):
        return target.getvalue()[pos or 0:]
    text = _file_text(target)
    # what the caller had written before the call (counted in characters: a position in a file of
    # another encoding than UTF-8 is no character offset) is not the library's text
    return text[pos[1]:] if isinstance(pos, tuple) else text


def _pre_pos(mon, call):
    t = call.args[1] if len(call.args) > 1 else call.kwargs.get("dump_target")
    if hasattr(t, "getvalue") and hasattr(t, "tell"):
        try:
            return t.tell()
        except Exception:
            return None
    if hasattr(t, "write") and isinstance(getattr(t, "name", None), (str, bytes, os.PathLike)):
        try:
            return ("chars", len(_file_text(t)))
        except Exception:
            return None
    return None


def _post_save(name, want_list):
    def post(mon, call):
        obj = call.args[0] if call.args else None
        target = call.args[1] if len(call.args) > 1 else call.kwargs.get("dump_target")
        circuits = obj if want_list else [obj]
        if not (isinstance(circuits, list) and all(_in_domain_circuit(c) for c in circuits)):
            mon.out_of_domain(name)
            return
        if call.exc is not None:
            if any(_defs_conflict([c]) for c in circuits) and isinstance(call.exc, ValueError):
                mon.ok(name)
            elif call.exc is _JUDGED_EXC[0]:
                mon.note(f"{name} raised (judged at to_dict)")
            else:
                _JUDGED_EXC[0] = call.exc
                mon.violation(f"{name}-raises", f"{name} raised {call.exc!r}")
            return
        try:
            text = _read_target(target, call.pre)
            d = json.loads(text)
        except Exception as e:
            mon.violation(f"{name}-not-json", f"{name} did not leave real JSON text in its target: {e!r}")
            return
        reg = _REG.get(_canon(d))
        if reg is obj:
            mon.ok(name)
        else:
            mon.violation(f"{name}-content", f"the text written by {name} is not the serialised form of its argument: "
                          f"{text[:300]}")
    return post


def _pre_load(mon, call):
    src = call.args[0] if call.args else call.kwargs.get("load_src")
    try:
        if isinstance(src, (str, bytes, os.PathLike)):
            with open(src, "r", encoding="utf-8") as f:
                return f.read()
        if hasattr(src, "getvalue"):
            return src.getvalue()[src.tell():]
        pos = src.tell()
        text = src.read()
        src.seek(pos)
        return text
    except Exception:
        return None


def _post_load(name, want_list):
    def post(mon, call):
        if call.pre is None:
            mon.out_of_domain(name)
            return
        try:
            text = _canon(json.loads(call.pre))
        except Exception:
            mon.out_of_domain(name)
            return
        orig = _REG.get(text)
        if orig is None or isinstance(orig, list) != want_list:
            mon.out_of_domain(name)
            return
        if call.exc is not None:
            if call.exc is _JUDGED_EXC[0]:
                mon.note(f"{name} raised (judged at the deserialiser)")
            else:
                _JUDGED_EXC[0] = call.exc
                mon.violation(f"{name}-raises", f"{name} raised {call.exc!r}")
            return
        origs = orig if want_list else [orig]
        imgs = call.result if want_list else [call.result]
        if not isinstance(imgs, list) or len(imgs) != len(origs):
            mon.violation(f"{name}-count", f"{len(origs)} circuits saved, loaded {imgs!r:.200}")
            return
        rng = _rng_for(text)
        bad = [f for o, i in zip(origs, imgs) for f in judge_pair(o, i, rng) if f[2] is None]
        if bad:
            mon.violation(f"{name}-{bad[0][0]}", f"{bad[0][1]}; loaded by {name}")
        else:
            mon.ok(name)
    return post


def _post_collect(mon, call):
    name = "collect_defs"
    c = call.args[0]
    if not _in_domain_circuit(c):
        mon.out_of_domain(name)
        return
    used = _defs_used(c)
    conflict = _defs_conflict([c])
    if call.exc is not None:
        _JUDGED_EXC[0] = call.exc
        if conflict and isinstance(call.exc, ValueError):
            mon.ok(name)
        else:
            mon.violation("collect-raises", f"collect_custom_gate_definitions raised {call.exc!r} for {describe_circuit(c)}")
        return
    if conflict:
        mon.violation("conflicting-definitions-accepted", f"two different definitions named {conflict!r} collected "
                      f"for {describe_circuit(c)}")
        return
    got = list(call.result)
    names = [d.gate_name for d in got]
    first = {}
    for d in used:
        first.setdefault(d.gate_name, d)
    bad = None
    if names != sorted(first):
        bad = f"definitions collected {names}, used (own traversal, unwrapping wrappers) {sorted(first)}"
    else:
        rng = random.Random(1)
        for d in got:
            why = cmp_def(first[d.gate_name], d, rng)
            if why:
                bad = why
                break
    if bad:
        mon.violation("collect-definitions", f"{bad}; circuit {describe_circuit(c)}")
    else:
        mon.ok(name)
        if len(used) > len(first):
            mon.note("definitions de-duplicated by name")


def _post_serialize_expr(mon, call):
    if call.exc is not None or not isinstance(call.result, str):
        return
    e = call.args[0] if call.args else None
    if len(_EXPR) > _REG_MAX:
        _EXPR.clear()
    lst = _EXPR.setdefault(call.result, [])
    if not any(x is e or (type(x) is type(e) and x == e) for x in lst) and len(lst) < 8:
        lst.append(e)


def _post_deserialize_expr(mon, call):
    name = "deserialize_expr"
    text = call.args[0] if call.args else call.kwargs.get("expr_str")
    names = call.args[1] if len(call.args) > 1 else call.kwargs.get("symbol_names")
    if not isinstance(text, str) or text not in _EXPR:
        mon.out_of_domain(name)
        return
    if not isinstance(names, (list, tuple, set, frozenset)):
        # a one-shot iterator: the table that was actually used is no longer observable here
        mon.note("deserialize_expr called with a one-shot iterator of names")
        mon.out_of_domain(name)
        return
    nameset = set(names)
    cands = [e for e in _EXPR[text] if {s.name for s in GS.symbols_of(e)} == nameset
             or (not GS.symbols_of(e) and not nameset)]
    # the symbol table of a gate lists the symbols of ALL its parameters: a superset is legitimate
    cands += [e for e in _EXPR[text] if e not in cands and {s.name for s in GS.symbols_of(e)} <= nameset]
    if not cands:
        mon.out_of_domain(name)
        return
    # ambiguity of the text format (K3) is judged at circuit level, where the gate is known
    hostile = any(GS.base_of(n) in nameset for n in nameset if GS.base_of(n)) or \
        nameset & set(GS.PARSER_HOOKS) or any(nameset & _text_tokens(e, nameset) for e in cands)
    if hostile:
        mon.note("deserialize_expr on an ambiguous text (K3 domain)")
        mon.out_of_domain(name)
        return
    if call.exc is not None:
        _JUDGED_EXC[0] = call.exc
        mon.violation("deserialize_expr-raises", f"deserialize_expr({text!r}, {sorted(nameset)}) raised {call.exc!r}")
        return
    rng = _rng_for(text)
    whys = []
    for e in cands:
        st, why = cmp_param(e, call.result, rng)
        if st in ("same", "k6"):
            mon.ok(name)
            return
        whys.append(why)
    mon.violation("deserialize_expr-value", f"deserialize_expr({text!r}, {sorted(nameset)}) = {call.result!r}: {whys[0]}")


def install(mon, reach):
    global _G, _C
    from orquestra.quantum.circuits import _builtin_gates as B
    from orquestra.quantum.circuits import _circuit as C
    from orquestra.quantum.circuits import _gates as G
    from orquestra.quantum.circuits import _serde as S

    _G, _C = G, C
    mon.max_depth = 12  # to_dict recurses through the wrapper chain; serialize_expr sits below it
    reach.watch(getattr(S, "_circuit_to_dict", None), "to_dict[Circuit]")
    reach.watch(getattr(S, "_circuitset_to_dict", None), "to_dict[list]")
    reach.watch(getattr(S, "_gate_operation_to_dict", None), "to_dict[GateOperation]")
    reach.watch(getattr(S, "_basic_gate_to_dict", None), "to_dict[MatrixFactoryGate]")
    reach.watch(getattr(S, "_custom_gate_def_to_dict", None), "to_dict[CustomGateDefinition]")
    reach.watch(getattr(S, "_controlled_gate_to_dict", None), "to_dict[ControlledGate]")
    reach.watch(getattr(S, "_dagger_gate_to_dict", None), "to_dict[Dagger]")
    reach.watch(getattr(S, "_exponential_gate_to_dict", None), "to_dict[Exponential]")
    reach.watch(getattr(S, "_power_gate_to_dict", None), "to_dict[Power]")
    reach.watch(S.circuit_from_dict, "circuit_from_dict")
    reach.watch(getattr(S, "_gate_from_dict", None), "_gate_from_dict")
    reach.watch(getattr(S, "_builtin_gate_from_dict", None), "_builtin_gate_from_dict")
    reach.watch(getattr(S, "_special_gate_from_dict", None), "_special_gate_from_dict", markers={
        "controlled": r"return _gates\.ControlledGate", "dagger": r"return _gates\.Dagger",
        "exponential": r"return _gates\.Exponential", "power": r"return _gates\.Power"})
    reach.watch(getattr(S, "_custom_gate_instance_from_dict", None), "_custom_gate_instance_from_dict")
    reach.watch(S.custom_gate_def_from_dict, "custom_gate_def_from_dict")
    reach.watch(S.deserialize_expr, "deserialize_expr")
    reach.watch(getattr(S, "_make_symbols_map", None), "_make_symbols_map", markers={"indexed": r"symbols_map\.setdefault"})
    reach.watch(S.circuitset_from_dict, "circuitset_from_dict")
    reach.watch(S.save_circuit, "save_circuit")
    reach.watch(S.load_circuit, "load_circuit")
    reach.watch(S.save_circuitset, "save_circuitset")
    reach.watch(S.load_circuitset, "load_circuitset")
    reach.watch(C.Circuit.collect_custom_gate_definitions, "collect_custom_gate_definitions",
                markers={"conflict": r"raise ValueError"})
    reach.watch(getattr(G.MatrixFactoryGate, "__eq__", None), "MatrixFactoryGate.__eq__")
    reach.watch(getattr(G, "_are_matrix_elements_equal", None), "_are_matrix_elements_equal")
    reach.watch(B.builtin_gate_by_name, "builtin_gate_by_name")

    mon.hook_func(S, "serialize_expr", post=_post_serialize_expr, name="serialize_expr")
    mon.hook_func(S, "deserialize_expr", post=_post_deserialize_expr, name="deserialize_expr")
    mon.hook_func(S, "to_dict", post=_post_to_dict, name="to_dict")
    mon.hook_func(S, "circuit_from_dict", post=_post_circuit_from_dict, pre=_pre_canon, name="circuit_from_dict")
    mon.hook_func(S, "circuitset_from_dict", post=_post_circuitset_from_dict, pre=_pre_canon,
                  name="circuitset_from_dict")
    mon.hook_func(S, "save_circuit", post=_post_save("save_circuit", False), pre=_pre_pos, name="save_circuit")
    mon.hook_func(S, "save_circuitset", post=_post_save("save_circuitset", True), pre=_pre_pos, name="save_circuitset")
    mon.hook_func(S, "load_circuit", post=_post_load("load_circuit", False), pre=_pre_load, name="load_circuit")
    mon.hook_func(S, "load_circuitset", post=_post_load("load_circuitset", True), pre=_pre_load, name="load_circuitset")
    mon.hook_method(C.Circuit, "collect_custom_gate_definitions", post=_post_collect, name="collect_defs")


BRANCHES = ["_special_gate_from_dict:controlled", "_special_gate_from_dict:dagger",
            "_special_gate_from_dict:exponential", "_special_gate_from_dict:power",
            "_make_symbols_map:indexed", "collect_custom_gate_definitions:conflict"]


# ============================================================================ generators
CUSTOM_NAMES = ["Foo", "U", "V", "MyGate", "SGD", "Xx", "sqrtX", "RXX", "G_1", "Rot", "custom_gate", "CX2",
                # names that CONTAIN what the serialised form uses to mark wrappers (a dagger is written "<name>_Dagger",
                # a power carries "^", controlled gates are called "Control", exponentials "Exponential"): a gate is
                # what its dictionary says it is, not what its name looks like
                "P_Dagger", "Y^0.5", "Control2", "myDaggerGate", "exp^P", "G^", "Controlled", "Exponential_1", "c-P"]
DEF_SYMBOLS = ["a", "b", "c", "omega", "kappa", "theta", "gamma", "beta", "S", "N", "Q", "O", "zeta", "lambda_",
               "x[3]", "x[10]", "params[0]", "y"]


def _safe_custom_names():
    from orquestra.quantum.circuits import _builtin_gates as B

    banned = set(vars(B))
    return [n for n in CUSTOM_NAMES if n not in banned and n not in ("Control", "Exponential", "Dagger", "^")]


def rand_def(rng, nprng, name=None, kind=None, sym_names=None):
    """a custom gate definition: numeric unitary (0 params) or symbolic matrix (1-3 params);
    sym_names = the pool its parameter symbols are drawn from (default DEF_SYMBOLS)"""
    name = name or rng.choice(_safe_custom_names())
    kind = kind or rng.choice(["numeric", "symbolic", "symbolic", "nonunitary"])
    nq = rng.choice([1, 1, 2]) if kind != "numeric" else rng.choice([1, 2, 3])
    if kind == "numeric":
        return GC.numeric_custom_def(rng, nprng, nq, name)
    nparams = rng.randint(1, 3)
    sym_names = sym_names or DEF_SYMBOLS
    names = rng.sample(sym_names, nparams)
    # no plain/indexed pair with one base inside a definition (that is K3(a), judged on gates)
    while any(GS.base_of(n) in names for n in names if GS.base_of(n)):
        names = rng.sample(sym_names, nparams)
    syms = tuple(sympy.Symbol(n) for n in names)
    d = 2 ** nq
    if kind == "nonunitary":  # the format does not care about unitarity (the repo's own example is [[t, g], [-g, t]])
        M = sympy.Matrix(d, d, lambda i, j: rng.choice(syms) * rng.choice([1, -1, 2, sympy.Rational(1, 2)])
                         + (rng.choice([0, 1, sympy.I, 0.5]) if rng.random() < 0.5 else 0))
    elif nq == 1:
        th = syms[0]
        ph = syms[1] if nparams > 1 else sympy.Rational(1, 3)
        lam = syms[2] if nparams > 2 else 0
        M = sympy.Matrix([
            [sympy.cos(th / 2), -sympy.exp(sympy.I * lam) * sympy.sin(th / 2)],
            [sympy.exp(sympy.I * ph) * sympy.sin(th / 2), sympy.exp(sympy.I * (ph + lam)) * sympy.cos(th / 2)]])
    else:
        M = sympy.zeros(d, d)
        perm = list(range(d))
        if rng.random() < 0.6:
            perm[1], perm[2] = perm[2], perm[1]
        for i in range(d):
            M[perm[i], i] = sympy.exp(sympy.I * syms[i % nparams] * (i + 1))
    from orquestra.quantum.circuits import CustomGateDefinition

    return CustomGateDefinition(gate_name=name, matrix=M, params_ordering=syms)


def rand_base_gate(rng, nprng, symbols, style, defs=None, max_nq=2, allow_u3=True):
    """innermost gate.  style: numeric / symbolic (symbols or expressions) / any.
    defs: list of definitions to draw custom gates from (None = built-in only)"""
    if defs and rng.random() < (0.75 if defs else 0):
        d = rng.choice(defs)
        own = list(d.params_ordering)
        args = []
        for _ in own:
            r = rng.random()
            if style == "numeric" or (style == "any" and r < 0.4):
                # custom gates are where complex arguments live: every printing family of a complex number
                args.append(GS.rand_number(rng) if rng.random() < 0.65 else GN.rand_complex(rng))
            elif r < 0.55 and style != "numeric":
                # instance arguments that mention the definition's own symbols (also swapped)
                args.append(rng.choice(own) if rng.random() < 0.6 else GS.rand_expr(rng, own, 1))
            elif r < 0.65 and symbols:
                args.append(GN.rand_complex_expr(rng, symbols))
            else:
                args.append(GS.rand_param(rng, symbols, "any" if style == "any" else rng.choice(["symbol", "expr"])))
        return d(*args)
    tab = GC.builtin_table()
    names = sorted(n for n, e in tab.items() if e["nq"] <= max_nq and (allow_u3 or n != "U3"))
    name = rng.choice(names)
    e = tab[name]
    if e["kind"] == "fixed":
        return e["ref"]
    params = []
    for _ in range(e["nparams"]):
        if style == "numeric":
            params.append(GS.rand_number(rng))
        elif style == "symbolic":
            params.append(GS.rand_param(rng, symbols, rng.choice(["symbol", "expr", "expr"])))
        else:
            params.append(GS.rand_param(rng, symbols, "any"))
    return e["ref"](*params)


def _has_symbols(g):
    return any(GS.symbols_of(p) for p in g.params)


def wrap(rng, gate, depth, max_arity=5):
    """wrap ``gate`` ``depth`` times with controlled(k<=3) / dagger / power(int, 1/q, float) / exp,
    through the public modifier methods (70 %) or the raw constructors (30 %: every nesting)"""
    G = _G
    for _ in range(depth):
        symbolic = _has_symbols(gate)
        kinds = ["controlled", "dagger"] + ([] if symbolic else ["power_int", "power_frac", "power_float", "exp"])
        kind = rng.choice(kinds)
        raw = rng.random() < 0.3
        if kind == "controlled":
            k = rng.randint(1, 3)
            if gate.num_qubits + k > max_arity:
                k = 1
                if gate.num_qubits + k > max_arity:
                    kind = "dagger"
            if kind == "controlled":
                gate = G.ControlledGate(gate, k) if raw else gate.controlled(k)
                continue
        if kind == "dagger":
            gate = G.Dagger(gate) if raw else gate.dagger
        elif kind.startswith("power"):
            ex = {"power_int": rng.choice([-3, -2, -1, 0, 1, 2, 3, 10]),
                  "power_frac": 1 / rng.choice([2, 3, 4, 7]),
                  "power_float": rng.choice([0.5, 0.25, -0.5, 1.5, 2.0, 1e-3, round(rng.uniform(-2, 2), 3),
                                             rng.uniform(-2, 2)])}[kind]
            gate = G.Power(gate, ex) if raw else gate.power(ex)
        else:
            gate = G.Exponential(gate) if raw else gate.exp
    return gate


def place(rng, g, width):
    """the gate on distinct random qubits of a register of at least ``width`` (never narrower than the gate:
    a wrapper chain with several controls may be wider than the register a case had in mind)"""
    return g(*GC.rand_qubits(rng, g.num_qubits, max(width, g.num_qubits)))


def rand_circuit(rng, nprng, cls, quick=True, defs=None, symbols=None, max_ops=None):
    from orquestra.quantum.circuits import Circuit

    max_depth = 3 if quick else 4
    symbols = symbols or GS.symbol_pool(rng, rng.randint(2, 5))
    n_ops = rng.randint(1, 8) if cls != "mixed" else rng.randint(3, 12)
    if max_ops:
        n_ops = min(n_ops, rng.randint(1, max_ops))
    ops = []
    for _ in range(n_ops):
        if cls == "builtin":
            g = rand_base_gate(rng, nprng, symbols, "numeric", None, max_nq=2, allow_u3=rng.random() < 0.3)
        elif cls == "symbolic":
            g = rand_base_gate(rng, nprng, symbols, "symbolic", None, allow_u3=rng.random() < 0.2)
        elif cls == "wrapped":
            g = rand_base_gate(rng, nprng, symbols, rng.choice(["numeric", "numeric", "symbolic"]), None,
                               allow_u3=rng.random() < 0.2)
            g = wrap(rng, g, rng.randint(1, max_depth))
        elif cls == "custom":
            g = rand_base_gate(rng, nprng, symbols, "any", defs, allow_u3=False)
            if rng.random() < 0.5:
                g = wrap(rng, g, rng.randint(1, max_depth))
        else:
            g = rand_base_gate(rng, nprng, symbols, "any", defs if rng.random() < 0.4 else None,
                               allow_u3=rng.random() < 0.2)
            if rng.random() < 0.5:
                g = wrap(rng, g, rng.randint(1, max_depth))
        ops.append(g)
    width = max(max(g.num_qubits for g in ops), rng.randint(1, 6))
    placed = [place(rng, g, width) for g in ops]
    span = max(q for op in placed for q in op.qubit_indices) + 1
    r = rng.random()
    if r < 0.35:
        return Circuit(placed)  # width from the operations
    if r < 0.7:
        return Circuit(placed, n_qubits=span + rng.randint(1, 3))  # idle qubits at the end
    return Circuit(placed, n_qubits=max(width, span))


def rand_namespaced_set(rng, nprng, quick, k, pool=None, max_ops=4):
    """k circuits, each with its OWN custom gate definitions drawn under the same one or two names:
    a gate name is unique within a circuit only (every serialised circuit carries its own definitions),
    so the same name stands for another matrix / parameter list / arity in the next circuit"""
    pool = pool or rng.sample(_safe_custom_names(), rng.randint(1, 2))
    symbols = GS.symbol_pool(rng, 4)
    out = []
    for _ in range(k):
        defs = [rand_def(rng, nprng, n) for n in rng.sample(pool, rng.randint(1, len(pool)))]
        out.append(rand_circuit(rng, nprng, rng.choice(["custom", "custom", "custom", "mixed"]), quick, defs, symbols,
                                max_ops if quick else 2 * max_ops))
    return out


def _names_redefined(circuits):
    """own traversal: some gate name has different definitions in different circuits"""
    seen = {}
    rng = random.Random(0)
    for c in circuits:
        for d in _defs_used(c):
            if d.gate_name in seen and seen[d.gate_name] is not d and cmp_def(seen[d.gate_name], d, rng):
                return True
            seen.setdefault(d.gate_name, d)
    return False


# ============================================================================ transports
def _tmpdir():
    global _TMP
    if _TMP is None:
        _TMP = tempfile.mkdtemp(prefix="rv-c05-")
    return _TMP


def transport(rng, obj, how, index):
    """serialise -> real JSON text / file -> deserialise, through the library's public functions"""
    from orquestra.quantum.circuits import _serde as S

    is_set = isinstance(obj, list)
    save, load = (S.save_circuitset, S.load_circuitset) if is_set else (S.save_circuit, S.load_circuit)
    if how == "dict":
        text = json.dumps(S.to_dict(obj))
        d = json.loads(text)
        return S.circuitset_from_dict(d) if is_set else S.circuit_from_dict(d)
    if how == "stringio":
        buf = io.StringIO()
        if rng.random() < 0.3:
            buf.write("")  # position 0, explicit
        save(obj, buf)
        buf.seek(0)
        return load(buf)
    path = os.path.join(_tmpdir(), f"c{index}.json")
    try:
        if how == "path":
            save(obj, path)
            return load(path)
        if how == "pathlike":
            import pathlib

            save(obj, pathlib.Path(path))
            return load(pathlib.Path(path))
        with open(path, "w", encoding="utf-8") as f:
            save(obj, f)
        with open(path, "r", encoding="utf-8") as f:
            return load(f)
    finally:
        if os.path.exists(path):
            os.remove(path)


TRANSPORTS = ["dict", "dict", "stringio", "path", "file", "pathlike"]

# ---------------------------------------------------------------------------- class "channel"
# names outside ASCII (identifiers; NFKC-stable: Python's parser normalises identifiers, so a name such as the
# micro sign U+00B5 is a different question - the text format - and is not generated), some of them inside
# latin-1 / cp1252, most of them not
UNICODE_SYMBOLS = ["θ", "φ", "ü", "Δt", "λ", "ω_1", "α", "β", "ñ",
                   "变量", "θ[0]", "φ[12]", "ü[3]", "été", "Ω", "ß",
                   "x_é", "длина", "ångle"]
UNICODE_GATE_NAMES = ["Drehung_ü", "Ф", "门", "Θ", "Ü1", "Gate_é", "Rotθ", "Ñu"]
# text encodings of a file the caller opened (None = the platform default, whatever it is here)
FILE_ENCODINGS = ["ascii", "ascii", "latin-1", "cp1252", "utf-8", "utf-8-sig", "utf-16", "utf-32", "cp437",
                  "iso8859-7", None]
CHANNEL_KINDS = ["file", "file", "file", "file", "file+", "file+", "file>path", "path>file", "path", "pathlike",
                 "bytespath", "stringio", "dict"]
_STALE = '{"stale": "' + "x" * 60000 + '"}'


def _stable_identifier(name):
    import unicodedata

    base = GS.base_of(name) or name
    return base.isidentifier() and unicodedata.normalize("NFKC", name) == name


def channel_names(rng):
    """(symbol names, names for the parameters of definitions, custom gate names, style)"""
    style = rng.choice(["unicode", "unicode", "unicode", "mixed", "mixed", "ascii"])
    usyms = [n for n in UNICODE_SYMBOLS if _stable_identifier(n)]
    if style == "ascii":
        pool, gates = list(GS.PLAIN) + ["x[3]", "p[1]"], _safe_custom_names()
    elif style == "unicode":
        pool, gates = usyms, UNICODE_GATE_NAMES
    else:
        pool, gates = usyms + list(GS.PLAIN), UNICODE_GATE_NAMES + _safe_custom_names()[:4]
    for _ in range(50):
        names = rng.sample(pool, rng.randint(2, 4))
        if not any(GS.base_of(n) in names for n in names if GS.base_of(n)):  # x beside x[i] is K3(a)
            break
    else:
        names = [pool[0]]
    return names, pool, rng.sample(gates, rng.randint(1, 2)), style


def channel_spec(rng):
    """how the serialised form travels: which kind of target / source the caller hands in"""
    import sys

    kind = rng.choice(CHANNEL_KINDS)
    spec = {"kind": kind, "enc": "utf-8", "lead": "", "trail": "", "uname": False, "stale": False, "again": False}
    if kind in ("file", "file+"):
        spec["enc"] = rng.choice(FILE_ENCODINGS)
    elif kind == "file>path":  # the library reads paths as UTF-8: what a caller's ASCII / UTF-8 handle wrote is that
        spec["enc"] = rng.choice(["ascii", "ascii", "utf-8"])
    elif kind == "path>file":
        spec["enc"] = rng.choice(["utf-8", "utf-8-sig"])
    if kind in ("file", "file+", "file>path", "stringio"):
        # JSON text may be surrounded by white space: what the caller wrote before and writes after the call
        spec["lead"] = rng.choice(["", "", "\n", "  ", "\n\t "])
        spec["trail"] = rng.choice(["", "\n", "\n", " \n\n"])
    if kind in ("file+", "stringio"):
        spec["again"] = rng.random() < 0.3  # the handle was used for another circuit before (rewound, truncated)
    if kind in ("path", "pathlike", "bytespath", "path>file"):
        spec["stale"] = rng.random() < 0.5  # the path holds an older, longer file
    if kind not in ("dict", "stringio") and sys.getfilesystemencoding().lower().replace("-", "") == "utf8":
        spec["uname"] = rng.random() < 0.3
    return spec


def _spec_str(spec):
    flags = [k for k in ("uname", "stale", "again") if spec[k]]
    pad = f" pad={spec['lead']!r}/{spec['trail']!r}" if spec["lead"] or spec["trail"] else ""
    enc = f":{spec['enc']}" if spec["kind"] in ("file", "file+", "file>path", "path>file") else ""
    return f"{spec['kind']}{enc}{pad}{' ' + '+'.join(flags) if flags else ''}"


def transport_channel(rng, obj, spec, index, other=None):
    """serialise -> a target of the caller's choosing -> deserialise.  ``other`` = what the handle was used for
    before (spec['again'])"""
    import pathlib

    from orquestra.quantum.circuits import _serde as S

    is_set = isinstance(obj, list)
    save, load = (S.save_circuitset, S.load_circuitset) if is_set else (S.save_circuit, S.load_circuit)
    kind, enc, lead, trail = spec["kind"], spec["enc"], spec["lead"], spec["trail"]

    def save_other(f):
        if spec["again"] and other is not None:
            (S.save_circuitset if isinstance(other, list) else S.save_circuit)(other, f)
            f.seek(0)
            f.truncate()

    if kind == "dict":
        text = json.dumps(S.to_dict(obj))
        d = json.loads(text)
        return S.circuitset_from_dict(d) if is_set else S.circuit_from_dict(d)
    if kind == "stringio":
        buf = io.StringIO()
        save_other(buf)
        buf.write(lead)
        save(obj, buf)
        buf.write(trail)
        buf.seek(0)
        return load(buf)
    path = os.path.join(_tmpdir(), f"k{index}{'_ü名' if spec['uname'] else ''}.json")
    try:
        if spec["stale"]:
            with open(path, "w", encoding="utf-8") as f:
                f.write(_STALE)
        if kind in ("path", "pathlike", "bytespath"):
            p = path if kind == "path" else pathlib.Path(path) if kind == "pathlike" else os.fsencode(path)
            save(obj, p)
            return load(p)
        if kind == "path>file":
            save(obj, path)
            with open(path, "r", encoding=enc) as f:
                return load(f)
        if kind == "file+":
            with open(path, "w+", encoding=enc) as f:
                save_other(f)
                f.write(lead)
                save(obj, f)
                f.write(trail)
                f.seek(0)
                return load(f)
        with open(path, "w", encoding=enc) as f:
            f.write(lead)
            save(obj, f)
            f.write(trail)
        if kind == "file>path":
            return load(path)
        with open(path, "r", encoding=enc) as f:
            return load(f)
    finally:
        if os.path.exists(path):
            os.remove(path)


def rand_channel_circuit(rng, nprng, quick, names, def_pool, gate_names):
    """a small circuit whose symbols, definition parameters and custom gate names come from the given pools;
    some numbers are spelled as fractions.Fraction / exact sympy numbers beyond 2**64"""
    from fractions import Fraction

    from orquestra.quantum.circuits import Circuit
    from orquestra.quantum.circuits import _builtin_gates as B

    symbols = [sympy.Symbol(n) for n in names]
    defs = [rand_def(rng, nprng, n, rng.choice(["symbolic", "symbolic", "nonunitary", "numeric"]), def_pool)
            for n in gate_names]
    c = rand_circuit(rng, nprng, rng.choice(["custom", "custom", "mixed", "symbolic"]), quick, defs, symbols,
                     max_ops=4 if quick else 8)
    if rng.random() < 0.3:
        p = rng.choice([Fraction(rng.randint(-9, 9), rng.choice([2, 3, 7])), sympy.Integer(2 ** 64 + rng.randint(1, 9)),
                        sympy.Rational(2 ** 70 + 1, 2 ** 65 + 3), rng.choice(symbols) * Fraction(1, 3),
                        sympy.Rational(rng.randint(1, 5), 10 ** 9), -(2 ** 63) - rng.randint(1, 5)])
        g = rng.choice([B.RX, B.RZ, B.PHASE])(p)
        c = Circuit(list(c.operations) + [g(rng.randrange(max(1, c.n_qubits)))], n_qubits=c.n_qubits)
    wanted = [s for s in symbols if not s.name.isascii()]
    if wanted and describe_circuit(c).isascii():
        # the names of the pool are what this class is about: at least one of them occurs
        s = rng.choice(wanted)
        g = rng.choice([B.RY(s), B.PHASE(2 * s), B.RZ(s / 2 + 1)])
        c = Circuit(list(c.operations) + [g(rng.randrange(max(1, c.n_qubits)))], n_qubits=c.n_qubits)
    return c


def _events(mon):
    return mon.n_violations + sum(mon.known.values())


def _note_params(mon, circuits):
    """tallies of the complex-valued parameter families that occur (evidence)"""
    for c in circuits:
        for op in c.operations:
            for p in _chain(op.gate)[1].params:
                if isinstance(p, complex):
                    long_ = any(float(f"{x:.6g}") != x for x in (p.real, p.imag))
                    mon.note("parameter: Python complex, " + ("a part needs more than 6 digits" if long_ else "short"))
                elif isinstance(p, sympy.Basic) and p.has(sympy.I):
                    mon.note("parameter: sympy " + ("expression with a complex coefficient" if p.atoms(sympy.Symbol)
                                                    else "complex number"))


def _run(ctx, obj, how, expect_refusal=False, other=None):
    """drive one round trip; hooks judge.  Exceptions of the library are violations recorded by the
    hooks; one that no hook saw is recorded here.  how = a transport name or a channel spec"""
    _REG.clear()
    _EXPR.clear()
    _note_params(ctx.mon, obj if isinstance(obj, list) else [obj])
    try:
        if isinstance(how, dict):
            spec, how = how, _spec_str(how)
            img = transport_channel(ctx.rng, obj, spec, ctx.index, other)
        else:
            img = transport(ctx.rng, obj, how, ctx.index)
    except Exception as e:
        if expect_refusal and isinstance(e, ValueError):
            ctx.check("conflict-refused", True)
            return None
        if e is not _JUDGED_EXC[0]:
            ctx.check("roundtrip-completes", False, f"{how}: {e!r}")
        return None
    if expect_refusal:
        ctx.check("conflict-refused", False, "two different definitions under one name were serialised")
        return None
    ctx.check("roundtrip-completes", True)
    return img


def _run_history(ctx, objs, order, how):
    """serialise every object first (real JSON text / file / StringIO), then deserialise in ``order``
    (an index may occur twice: the text is read a second time); hooks judge every step"""
    from orquestra.quantum.circuits import _serde as S

    _REG.clear()
    _EXPR.clear()
    _note_params(ctx.mon, [c for o in objs for c in (o if isinstance(o, list) else [o])])
    shipped = []
    try:
        for i, obj in enumerate(objs):
            is_set = isinstance(obj, list)
            if how == "dict":
                shipped.append(json.dumps(S.to_dict(obj)))
            elif how == "stringio":
                buf = io.StringIO()
                (S.save_circuitset if is_set else S.save_circuit)(obj, buf)
                shipped.append(buf)
            else:
                path = os.path.join(_tmpdir(), f"h{ctx.index}_{i}.json")
                shipped.append(path)
                (S.save_circuitset if is_set else S.save_circuit)(obj, path)
        for i in order:
            is_set = isinstance(objs[i], list)
            if how == "dict":
                d = json.loads(shipped[i])
                S.circuitset_from_dict(d) if is_set else S.circuit_from_dict(d)
            else:
                if how == "stringio":
                    shipped[i].seek(0)
                (S.load_circuitset if is_set else S.load_circuit)(shipped[i])
        ctx.check("roundtrip-completes", True)
    except Exception as e:
        if e is not _JUDGED_EXC[0]:
            ctx.check("roundtrip-completes", False, f"history via {how}: {e!r}")
    finally:
        if how == "path":
            for path in shipped:
                if os.path.exists(path):
                    os.remove(path)


def run_case(ctx):
    from orquestra.quantum.circuits import Circuit, CustomGateDefinition
    from orquestra.quantum.circuits import _builtin_gates as B
    from orquestra.quantum.circuits import _serde as S

    rng, nprng, cls = ctx.rng, ctx.nprng, ctx.cls
    how = rng.choice(TRANSPORTS)
    if cls in ("builtin", "symbolic", "wrapped", "mixed", "custom"):
        defs = None
        if cls in ("custom", "mixed"):
            names = rng.sample(_safe_custom_names(), rng.randint(1, 3))
            defs = [rand_def(rng, nprng, n) for n in names]
        c = rand_circuit(rng, nprng, cls, ctx.quick, defs)
        ctx.describe(f"{cls} via {how}: {describe_circuit(c)}", is_nontrivial(c))
        _run(ctx, c, how)
        return
    if cls == "circuitset":
        mode = rng.choice(["shared", "shared", "own", "own", "own", "repeat"])
        ctx.mon.note(f"circuitset mode {mode}")
        if mode == "own":
            cs = rand_namespaced_set(rng, nprng, ctx.quick, rng.choice([2, 2, 3, 4] if not ctx.quick else [2, 2, 3]))
            if _names_redefined(cs):
                ctx.mon.note("circuitset: one gate name, different definitions in different circuits")
        else:
            k = rng.choice([0, 1, 2, 3, 4])
            names = rng.sample(_safe_custom_names(), 2)
            defs = [rand_def(rng, nprng, n) for n in names]
            symbols = GS.symbol_pool(rng, 4)
            cs = [rand_circuit(rng, nprng, rng.choice(["builtin", "symbolic", "wrapped", "custom", "mixed"]), ctx.quick,
                               defs, symbols) for _ in range(k)]
            if mode == "repeat" and cs:
                # the same circuit object twice, and an equal circuit built a second time
                c = rng.choice(cs)
                cs.insert(rng.randrange(len(cs) + 1), c)
                cs.insert(rng.randrange(len(cs) + 1), Circuit(list(c.operations), n_qubits=c.n_qubits))
        if cs and rng.random() < 0.2:
            cs.insert(rng.randrange(len(cs) + 1),
                      Circuit() if rng.random() < 0.5 else Circuit([], n_qubits=rng.randint(1, 5)))
        ctx.describe(f"circuitset[{mode}] via {how}: [{' | '.join(describe_circuit(c) for c in cs)}]",
                     any(is_nontrivial(c) for c in cs))
        _run(ctx, cs, how)
        return
    if cls == "shortlived":
        # a worker loop: build a circuit around a FRESH custom gate definition, ship it, drop everything, next one.
        # The definitions share their name and parameter list and differ in their matrix; each dies before the next
        # one is made, so object addresses (and anything remembered per address, per name or per parameter list)
        # come round again.  Nothing of an earlier iteration is kept alive by the harness.
        name = rng.choice(_safe_custom_names())
        nparams = rng.choice([0, 1, 1])
        th = sympy.Symbol(rng.choice(["theta", "alpha", "x"]))
        n_iter = rng.randint(12, 30)
        how = rng.choice(["dict", "dict", "stringio"])
        ctx.describe(f"shortlived {n_iter} definitions named {name} ({nparams} params) via {how}", True)
        c = d = None
        for i in range(n_iter):
            _REG.clear()
            _EXPR.clear()
            c = d = None
            if nparams:
                k = rng.randint(1, 9)
                M = sympy.Matrix([[1, 0], [0, sympy.exp(sympy.I * k * th)]]) if rng.random() < 0.5 else \
                    sympy.Matrix([[sympy.cos(k * th), -sympy.sin(k * th)], [sympy.sin(k * th), sympy.cos(k * th)]])
                d = CustomGateDefinition(gate_name=name, matrix=M, params_ordering=(th,))
                g = d(rng.choice([th, round(rng.uniform(-3, 3), 3), th / 2]))
            else:
                d = GC.numeric_custom_def(rng, nprng, 1, name)
                g = d()
            ops = [g(rng.randrange(2))]
            if rng.random() < 0.3:
                ops.append(g.controlled(1)(0, 1))
            c = Circuit(ops, n_qubits=2)
            _run(ctx, c, how)
        return
    if cls == "history":
        # several tasks in flight: everything is serialised first, then read back in another order, some
        # texts twice.  The objects are unrelated except that they use the same few custom gate names
        # for different definitions (each circuit is its own namespace)
        how = rng.choice(["dict", "dict", "stringio", "path"])
        pool = rng.sample(_safe_custom_names(), 2)
        objs = []
        for _ in range(rng.choice([2, 2, 3])):
            if rng.random() < 0.25:
                objs.append(rand_namespaced_set(rng, nprng, ctx.quick, 2, pool, 2))
            else:
                defs = [rand_def(rng, nprng, n) for n in rng.sample(pool, rng.randint(1, 2))]
                objs.append(rand_circuit(rng, nprng, rng.choice(["custom", "custom", "mixed"]), ctx.quick, defs,
                                         max_ops=3 if ctx.quick else 6))
        if rng.random() < 0.2:
            objs.append(rng.choice(objs))  # the same object serialised a second time
        order = list(range(len(objs)))
        rng.shuffle(order)
        order.append(rng.choice(order))  # second reading of a text already read
        flat = [c for o in objs for c in (o if isinstance(o, list) else [o])]
        ctx.describe(f"history via {how}, read order {order}: " + " || ".join(
            "[" + " | ".join(describe_circuit(c) for c in o) + "]" if isinstance(o, list) else describe_circuit(o)
            for o in objs), any(is_nontrivial(c) for c in flat))
        if _names_redefined(flat):
            ctx.mon.note("history: one gate name, different definitions in different tasks")
        _run_history(ctx, objs, order, how)
        return
    if cls == "channel":
        # what the caller hands in as target / source: open text files of many encodings (also the same handle for
        # writing and reading, used before, with white space around the JSON text), paths of every spelling
        # (also non-ASCII, also holding an older longer file), crossed with names outside ASCII
        names, def_pool, gate_names, style = channel_names(rng)
        spec = channel_spec(rng)
        k = rng.choice([1, 1, 1, 2, 2, 3])  # one circuit, or a set of k - 1 circuits (one of them maybe twice)
        cs = [rand_channel_circuit(rng, nprng, ctx.quick, names, def_pool, gate_names) for _ in range(max(k - 1, 1))]
        if k >= 2 and rng.random() < 0.3:
            cs.append(cs[0])
        obj = cs[0] if k == 1 else cs
        other = rand_channel_circuit(rng, nprng, ctx.quick, names, def_pool, gate_names) if spec["again"] else None
        flat = obj if isinstance(obj, list) else [obj]
        nonascii = any(not describe_circuit(c).isascii() for c in flat)
        ctx.mon.note(f"channel: {spec['kind']}" + (f" {spec['enc']}" if spec["kind"] in ("file", "file+") else ""))
        ctx.mon.note("channel: names outside ASCII" if nonascii else "channel: ASCII names only")
        ctx.describe(f"channel[{style}] via {_spec_str(spec)}: " + (
            "[" + " | ".join(describe_circuit(c) for c in obj) + "]" if isinstance(obj, list) else describe_circuit(obj))
            + (f" after {describe_circuit(other)}" if other is not None else ""),
            any(is_nontrivial(c) for c in flat))
        _run(ctx, obj, spec, other=other)
        return
    if cls == "edge":
        kind = rng.choice(["empty", "idle", "numbers", "dedupe", "conflict", "k3", "expr", "chain", "all_builtin",
                           "swapped_args"])
        if kind == "empty":
            c = Circuit() if rng.random() < 0.4 else Circuit([], n_qubits=rng.randint(1, 9))
            ctx.describe(f"edge empty via {how}: {describe_circuit(c)}", False)
            img = _run(ctx, c, how)
            if img is not None:
                ctx.check("empty-circuit", isinstance(img, Circuit) and img.n_qubits == c.n_qubits
                          and len(img.operations) == 0 and img == c, f"{describe_circuit(c)} -> {img!r}")
            return
        if kind == "idle":
            g = rand_base_gate(rng, nprng, GS.symbol_pool(rng, 2), "any")
            q = GC.rand_qubits(rng, g.num_qubits, max(3, g.num_qubits))
            c = Circuit([g(*q)], n_qubits=max(q) + 1 + rng.randint(1, 30))
            ctx.describe(f"edge idle via {how}: {describe_circuit(c)}", is_nontrivial(c))
            _run(ctx, c, how)
            return
        if kind == "numbers":
            vals = [rng.choice(GS.SPECIAL_FLOATS + GS.SPECIAL_INTS) for _ in range(rng.randint(1, 6))]
            gates = [rng.choice([B.RX, B.RZ, B.PHASE, B.XX, B.Delay, B.GPi])(v) for v in vals]
            if rng.random() < 0.4:
                gates.append(B.U3(rng.choice(vals), rng.uniform(-7, 7), rng.randint(-4, 4)))
            c = Circuit([place(rng, g, 4) for g in gates])
            ctx.describe(f"edge numbers via {how}: {describe_circuit(c)}", False)
            _run(ctx, c, how)
            return
        if kind == "all_builtin":
            tab = GC.builtin_table()
            syms = GS.symbol_pool(rng, 3)
            ops = []
            for name in sorted(tab):
                e = tab[name]
                g = e["ref"] if e["kind"] == "fixed" else e["ref"](
                    *[GS.rand_param(rng, syms, "any") for _ in range(e["nparams"])])
                ops.append(place(rng, g, 4))
            rng.shuffle(ops)
            c = Circuit(ops)
            ctx.describe(f"edge all_builtin via {how}: {describe_circuit(c)}", True)
            _run(ctx, c, how)
            return
        if kind in ("dedupe", "conflict"):
            name = rng.choice(_safe_custom_names())
            d1 = rand_def(rng, nprng, name, "symbolic")
            if kind == "dedupe":  # an equal but distinct definition object, used several times, also under wrappers
                d2 = CustomGateDefinition(d1.gate_name, sympy.Matrix(d1.matrix), tuple(d1.params_ordering))
            else:
                style = rng.choice(["matrix", "ordering"])
                if style == "matrix" or len(d1.params_ordering) < 2:
                    M = sympy.Matrix(d1.matrix)
                    M[0, 0] = M[0, 0] + rng.choice([1, sympy.Rational(1, 100), d1.params_ordering[0]])
                    d2 = CustomGateDefinition(d1.gate_name, M, tuple(d1.params_ordering))
                else:
                    d2 = CustomGateDefinition(d1.gate_name, sympy.Matrix(d1.matrix), tuple(reversed(d1.params_ordering)))
            other = rand_def(rng, nprng, rng.choice([n for n in _safe_custom_names() if n != name]), "numeric")
            syms = GS.symbol_pool(rng, 3, "plain")
            ops = []
            for d in rng.sample([d1, d2, d1, d2, other], rng.randint(3, 5)) + [d1, d2]:
                g = d(*[GS.rand_param(rng, syms, "any") for _ in d.params_ordering])
                if rng.random() < 0.4:
                    g = wrap(rng, g, 1)
                ops.append(place(rng, g, 5))
            rng.shuffle(ops)
            c = Circuit(ops)
            ctx.describe(f"edge {kind} via {how}: {describe_circuit(c)}", True)
            _run(ctx, c, how, expect_refusal=(kind == "conflict"))
            return
        if kind == "k3":
            # text-format name ambiguities (known finding K3), kept observed
            v = rng.choice(["a", "b", "c_const", "c_func"])
            x = sympy.Symbol("x")
            if v == "a":
                b = rng.choice(["x", "params", "p"])
                i = rng.choice([0, 3, 10])
                p = rng.choice([sympy.Symbol(b) + sympy.Symbol(f"{b}[{i}]"), sympy.Symbol(f"{b}[{i}]") * 2 - sympy.Symbol(b)])
                g = B.RX(p) if rng.random() < 0.5 else B.U3(sympy.Symbol(b), sympy.Symbol(f"{b}[{i}]"), 1)
            elif v == "b":
                g = rng.choice([B.RY(sympy.Symbol("Integer") + 2), B.RZ(sympy.Symbol("Float") * 0.5),
                                B.U3(sympy.Symbol("Integer"), 1, x)])
            elif v == "c_const":
                g = rng.choice([B.RX(sympy.Symbol("pi") + sympy.pi / 4), B.U3(sympy.Symbol("pi"), sympy.pi, 0),
                                B.PHASE(sympy.Symbol("E") * sympy.E)])
            else:
                g = rng.choice([B.RX(sympy.Symbol("sin") + sympy.sin(x)), B.U3(sympy.Symbol("cos"), sympy.cos(x), 0),
                                B.RZ(sympy.Symbol("sqrt") * sympy.sqrt(x))])
            if rng.random() < 0.3:
                g = g.controlled(1)
            c = Circuit([B.X(0), place(rng, g, 3)])
            ctx.describe(f"edge k3:{v} via {how}: {describe_circuit(c)}", True)
            _run(ctx, c, how)
            return
        if kind == "expr":
            syms = GS.symbol_pool(rng, rng.randint(1, 4))
            e = GS.rand_param(rng, syms, rng.choice(["expr", "expr", "symbol", "numeric"]))
            names = sorted({s.name for s in GS.symbols_of(e)} | ({s.name for s in syms} if rng.random() < 0.5 else set()))
            ctx.describe(f"edge expr: {GS.pstr(e)} names={names}", not GS.is_python_number(e))
            _EXPR.clear()
            try:
                S.deserialize_expr(S.serialize_expr(e), names)
            except Exception as ex:
                if ex is not _JUDGED_EXC[0]:
                    mech = k3_mechanisms(None, [e], set(names))
                    msg = str(ex)
                    known = K3 if isinstance(ex, TypeError) and (
                        ("a" in mech and ("item assignment" in msg or "not subscriptable" in msg))
                        or (mech & {"b", "c"} and "not callable" in msg)) else None
                    ctx.check("roundtrip-completes", False, f"deserialize_expr({str(e)!r}, {names}) raised {ex!r}",
                              known=known)
            return
        if kind == "chain":
            # the name-pattern dispatch: every order of two/three different wrappers, raw constructors
            G = _G
            base = rng.choice([B.X, B.T, B.RX(rng.uniform(-3, 3)), B.SWAP, B.RZ(0.5), B.ISWAP])
            mk = {"C": lambda g: G.ControlledGate(g, rng.randint(1, 2)), "D": lambda g: G.Dagger(g),
                  "P": lambda g: G.Power(g, rng.choice([2, -1, 0.5, 0.25])), "E": lambda g: G.Exponential(g)}
            order = [rng.choice("CDPE") for _ in range(rng.randint(2, 3 if ctx.quick else 4))]
            g = base
            for k in order:
                g = mk[k](g)
            c = Circuit([place(rng, g, g.num_qubits + 1)])
            ctx.describe(f"edge chain via {how}: {describe_circuit(c)}", True)
            _run(ctx, c, how)
            return
        if kind == "swapped_args":
            d = rand_def(rng, nprng, None, "symbolic")
            own = list(d.params_ordering)
            args = list(reversed(own)) if rng.random() < 0.5 else [rng.choice(own) * 2 + 1 for _ in own]
            g = d(*args)
            if rng.random() < 0.4:
                g = wrap(rng, g, 1)
            c = Circuit([place(rng, g, 4)])
            ctx.describe(f"edge swapped_args via {how}: {describe_circuit(c)}", True)
            _run(ctx, c, how)
            return
    raise ValueError(cls)


def finish(mon, res):
    global _TMP
    if _TMP and os.path.isdir(_TMP):
        import shutil

        shutil.rmtree(_TMP, ignore_errors=True)
        _TMP = None
