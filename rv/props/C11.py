"""C11 - operators and result artefacts survive dict, file and text round trips."""
import io
import json
import os
import pathlib
import shutil
import tempfile

import numpy as np

from ..ref import pauli as P

ID = "C11"
LEVEL = "exploration"
TECHNIQUE = (
    "runtime monitoring: shadow-state oracles on the hooked save/convert/print functions (what was "
    "written, keyed by the exact text/dict produced) judged at the hooked load/convert/parse functions"
)
LEVEL_NOTE = (
    "trusted: reference Pauli matrices (rv/ref/pauli.py), Python's json module for 'is real JSON'; "
    "operators are compared as matrices (1e-8 x scale) and, when simplified, term by term with ==; "
    "artefacts field by field with =="
)
RULE = (
    "seeded generator by input class (operator via dict+JSON text / via file, single and sets / via printed "
    "text; measurements; expectation values; parities; value estimates; lists; layers-connectivity-ordering; "
    "nmeas estimates; raw arrays; histories on one operator / one artefact object); coefficients int/float/"
    "complex/zero-imaginary/-0.0/1e-300..9.9e14/exponent-format/purely imaginary/numpy float64 and complex128, "
    "constants, empty sum, multi-digit qubit indices, duplicate and zero-coefficient terms, the identical term "
    "object twice, sums built from tuples; integer arrays and tallies beyond 2**53 up to the int64 limits "
    "and narrow dtypes; savers annotated AnyPath are given str / pathlib / bytes paths (also non-ASCII names), "
    "loaders a path, a caller-opened file (default, utf-8, ascii, latin-1), a StringIO, or another kind of open "
    "file (codecs.open, tempfile.NamedTemporaryFile, TextIOWrapper over BytesIO, a bare object with read()). Histories: observe "
    "(convert / save / save a set with identical, equal and term-sharing members / print+parse), then reassign a "
    "public attribute (term.coefficient, sum.terms, bitstrings, values, frames, precision, layers, ...), modify "
    "it or an earlier returned dictionary / loaded object in place, observe again (same or another path), "
    "re-read earlier files. Non-trivial: operator with >=2 terms and at least one of {non-real coefficient, "
    "constant term, multi-digit index, exponent-format/tiny/large coefficient}; artefact with >=2 elements and at "
    "least one optional part (frames, complex values, precision, nesting); history with a change between two "
    "observations. distinct = distinct canonical case strings"
)
ASSUMPTIONS = [
    "coefficient magnitudes avoid the grey zone (1e-10, 1e-6) around the library's 1e-8 zero tolerance; "
    "all magnitudes < 1e15; no NaN/inf",
    "an operator is 'simplified' when its terms have pairwise distinct operator sets and every |coefficient| > 1e-6; "
    "only then the exact (operators, real, imag) comparison is demanded (dict and file routes)",
    "printed text route: matrices compared at 1e-8 absolute above 1 and relative to the largest entry below 1 (1e-8 x min(1, scale)) so that a "
    "small coefficient must come back as itself",
    "'no frames' compares equal whether spelled None or []",
    "arrays whose shape has a zero-length axis followed by further axes are outside the workload "
    "(nested JSON lists cannot carry that shape); frames are N x N with N >= 1",
    "paths given to loaders are str; pathlib paths are not given to loaders (several loaders only test "
    "isinstance(file, str)); savers annotated AnyPath (and load_nmeas_estimate) also get pathlib and bytes paths",
    "a caller-opened file is opened as ascii / latin-1 only when the file holds ASCII bytes only",
    "integer arrays stay within int64 (a uint64 array mixing values >= 2**63 with smaller ones comes back as "
    "rounded floats on the unchanged tree: numpy's dtype inference on the parsed list; observed, not judged); "
    "no dtype is demanded of a loaded array, its shape and its values (compared exactly as Python "
    "numbers) are",
    "histories: after every change the expectation is what the object's public attributes show at the time of the "
    "next conversion / save; a file keeps denoting what was written to it last",
]
DECIDING = [
    "convert_op_to_dict", "convert_dict_to_op", "save_operator", "load_operator",
    "save_operator_set", "load_operator_set", "PauliTerm(str)", "PauliSum(str)",
    "Measurements.save", "Measurements.load_from_file",
    "save_expectation_values", "load_expectation_values", "save_parities", "load_parities",
    "save_value_estimate", "load_value_estimate", "save_list", "load_list",
    "save_circuit_layers", "load_circuit_layers", "save_circuit_connectivity", "load_circuit_connectivity",
    "save_circuit_ordering", "load_circuit_ordering", "save_nmeas_estimate", "load_nmeas_estimate",
    "convert_array_to_dict", "convert_dict_to_array",
    "op-dict-roundtrip", "op-file-roundtrip", "op-set-roundtrip", "op-text-roundtrip",
    "op-text-roundtrip-constant", "measurements-roundtrip", "expvals-roundtrip", "parities-roundtrip",
    "value-estimate-roundtrip", "list-roundtrip", "layout-roundtrip", "nmeas-roundtrip",
    "nmeas-roundtrip-noframes", "array-roundtrip",
]
BRANCHES = [
    "convert_dict_to_array:imag", "convert_dict_to_op:imag", "convert_op_to_dict:complex",
    "PauliSum.__repr__:empty", "PauliTerm.__repr__:constant", "ExpectationValues.from_dict:correlations",
    "ExpectationValues.from_dict:covariances", "Parities.from_dict:correlations", "save_nmeas_estimate:frames",
]
BUDGET = {"quick": (4, 45, 20000), "thorough": (16, 200, 120000)}
MIN_EVALS = {"quick": 1000, "thorough": 5000}

_TMP = None
_SHADOW = {}  # (kind, key text) -> canonical value of what was written; reset at every case
_MAXQ = 7  # widest operator (distinct qubits) compared as a dense matrix


def classes(tier):
    return ["op_dict", "op_file", "op_text", "measurements", "expvals", "parities",
            "value_estimate", "lists", "layouts", "nmeas", "arrays", "history"]


# ============================================================================ canonical values
class NotInDomain(Exception):
    pass


def canon_op(op):
    """public view of a PauliTerm / PauliSum: list of (sorted ops, complex coefficient)"""
    out = []
    for t in op.terms:
        ops = tuple(sorted((int(q), str(o)) for q, o in t.operations))
        c = t.coefficient
        if isinstance(c, bool) or not isinstance(c, (int, float, complex)):
            raise NotInDomain(type(c).__name__)
        out.append((ops, complex(c)))
    return out


def _dense(terms, qubits):
    pos = {q: i for i, q in enumerate(qubits)}
    n = max(1, len(qubits))
    M = np.zeros((2**n, 2**n), dtype=complex)
    for ops, c in terms:
        M += P.string_matrix([(pos[q], o) for q, o in ops], c, n)
    return M


def simplified(terms):
    """True / False / None (= grey zone, no verdict)"""
    seen = set()
    grey = False
    for ops, c in terms:
        if ops in seen:
            return False
        seen.add(ops)
        a = abs(c)
        if a < 1e-10:
            return False
        if a <= 1e-6:
            grey = True
    return None if grey else True


def compare_ops(exp, got, mode):
    """None if ``got`` denotes what ``exp`` denotes, else a description.
    mode 'lib': 1e-8 x max(1, scale) and exact terms when exp is simplified;
    mode 'text': 1e-8 x min(1, scale)."""
    qubits = sorted({q for ops, _ in exp for q, _ in ops} | {q for ops, _ in got for q, _ in ops})
    if len(qubits) > _MAXQ:
        raise NotInDomain("too wide")
    A = _dense(exp, qubits)
    B = _dense(got, qubits)
    scale = float(np.abs(A).max())
    diff = float(np.abs(A - B).max())
    # text: absolute 1e-8 as the statement has it ("the same matrix to the library's 1e-8 tolerance") for entries above 1
    # - floats print with repr, which reads back exactly, so a coefficient of 1e14 comes back to the last bit - and
    # relative to the largest entry below 1, so that a small coefficient must come back as itself
    tol = 1e-8 * (max(1.0, scale) if mode == "lib" else min(1.0, scale))
    if not diff <= tol:
        return f"matrices differ by {diff!r} (tolerance {tol!r})"
    if mode == "lib" and simplified(exp) is True:
        e = sorted(exp, key=lambda t: t[0])
        g = sorted(got, key=lambda t: t[0])
        if len(e) != len(g):
            return f"simplified operator with {len(e)} terms came back with {len(g)}"
        for (eo, ec), (go, gc) in zip(e, g):
            if eo != go or ec.real != gc.real or ec.imag != gc.imag:
                return f"term {eo} coefficient {ec!r} came back as {go} {gc!r}"
    return None


def canon_array(a):
    a = np.asarray(a)
    if a.dtype == object:
        raise NotInDomain("object array")
    return ("array", tuple(a.shape), np.real(a).ravel().tolist(), np.imag(a).ravel().tolist())


def canon_frames(x):
    return [] if x is None else [canon_array(m) for m in x]


def typed(x):
    """deep value with the container/scalar types JSON distinguishes"""
    if x is None or isinstance(x, (bool, str)):
        return (type(x).__name__, x)
    if isinstance(x, (int, np.integer)):
        return ("int", int(x))
    if isinstance(x, (float, np.floating)):
        return ("float", float(x))
    if isinstance(x, tuple):
        return ("tuple", [typed(v) for v in x])
    if isinstance(x, list):
        return ("list", [typed(v) for v in x])
    if isinstance(x, dict):
        return ("dict", sorted((k, typed(v)) for k, v in x.items()))
    raise NotInDomain(type(x).__name__)


def canon_measurements(m):
    bs = m.bitstrings
    if not isinstance(bs, list):
        raise NotInDomain("bitstrings not a list")
    out = []
    for b in bs:
        out.append((type(b).__name__ if not isinstance(b, tuple) else "tuple", [int(v) for v in b]))
    return out


def canon_expvals(e):
    return (canon_array(e.values), canon_frames(e.correlations), canon_frames(e.estimator_covariances))


def canon_parities(p):
    return (canon_array(p.values), canon_frames(p.correlations))


def canon_value_estimate(v):
    p = v.precision
    return (type(v).__name__, float(v), None if p is None else float(p))


def canon_layers(x):
    return typed(x.layers)


def canon_connectivity(x):
    return typed(x.connectivity)


def canon_nmeas(nmeas, nterms, frames):
    return (typed(nmeas), typed(nterms), None if frames is None else canon_array(frames))


# ============================================================================ monitors
def _arg(call, i, name, default=None):
    if len(call.args) > i:
        return call.args[i]
    return call.kwargs.get(name, default)


def _read_source(src):
    """text behind a load argument without consuming it (None if unreadable)"""
    if isinstance(src, (str, bytes, os.PathLike)):
        with open(src, "r") as f:
            return f.read()
    if hasattr(src, "read") and hasattr(src, "seek") and hasattr(src, "tell"):
        pos = src.tell()
        text = src.read()
        src.seek(pos)
        return text
    return None


def _dict_key(d):
    return json.dumps(d, sort_keys=True)


def _has_constant(canon):
    return len(canon) == 0 or any(len(ops) == 0 for ops, _ in canon)


# ---- operators: dict
def _post_op_to_dict(mon, call):
    name = "convert_op_to_dict"
    try:
        exp = canon_op(call.args[0])
    except Exception:
        mon.out_of_domain(name)
        return
    if call.exc is not None:
        mon.violation("op-to-dict-raises", f"{exp!r}: {call.exc!r}")
        return
    d = call.result
    try:
        text = json.dumps(d)
        back = json.loads(text)
    except Exception as e:
        mon.violation("op-dict-not-json", f"{exp!r} -> {d!r}: {e!r}")
        return
    if back != d:
        mon.violation("op-dict-not-json", f"{d!r} changes through JSON text: {back!r}")
        return
    _SHADOW[("opdict", _dict_key(d))] = exp
    mon.ok(name)


def _pre_dict_to_op(mon, call):
    d = _arg(call, 0, "dictionary")
    try:
        return _dict_key(d)
    except Exception:
        return None


def _judge_op(mon, name, kindbase, exp, call, what):
    if call.exc is not None:
        mon.violation(f"{kindbase}-raises", f"{what}: written from {exp!r}, reading raised {call.exc!r}")
        return
    try:
        got = canon_op(call.result)
        why = compare_ops(exp, got, "lib")
    except NotInDomain:
        mon.out_of_domain(name)
        return
    if why:
        mon.violation(f"{kindbase}-differs", f"{what}: {exp!r} came back as {got!r}: {why}")
    else:
        mon.ok(name)


def _post_dict_to_op(mon, call):
    name = "convert_dict_to_op"
    exp = _SHADOW.get(("opdict", call.pre)) if call.pre is not None else None
    if exp is None:
        mon.out_of_domain(name)
        return
    _judge_op(mon, name, "dict-to-op", exp, call, "dict")


# ---- operators: files
def _post_save_operator(mon, call):
    name = "save_operator"
    try:
        exp = canon_op(_arg(call, 0, "operator"))
    except Exception:
        mon.out_of_domain(name)
        return
    if call.exc is not None:
        mon.violation("save-operator-raises", f"{exp!r}: {call.exc!r}")
        return
    text = _read_source(_arg(call, 1, "filename"))
    try:
        json.loads(text)
    except Exception as e:
        mon.violation("operator-file-not-json", f"{exp!r} -> {text[:300]!r}: {e!r}")
        return
    _SHADOW[("opfile", text)] = exp
    mon.ok(name)


def _pre_load(mon, call):
    try:
        return _read_source(_arg(call, 0, "file"))
    except Exception:
        return None


def _post_load_operator(mon, call):
    name = "load_operator"
    exp = _SHADOW.get(("opfile", call.pre)) if call.pre is not None else None
    if exp is None:
        mon.out_of_domain(name)
        return
    _judge_op(mon, name, "load-operator", exp, call, "file")


def _post_save_operator_set(mon, call):
    name = "save_operator_set"
    try:
        exp = [canon_op(o) for o in _arg(call, 0, "operator_set")]
    except Exception:
        mon.out_of_domain(name)
        return
    if call.exc is not None:
        mon.violation("save-operator-set-raises", f"{exp!r}: {call.exc!r}")
        return
    text = _read_source(_arg(call, 1, "filename"))
    try:
        json.loads(text)
    except Exception as e:
        mon.violation("operator-file-not-json", f"{exp!r} -> {text[:300]!r}: {e!r}")
        return
    _SHADOW[("opset", text)] = exp
    mon.ok(name)


def _post_load_operator_set(mon, call):
    name = "load_operator_set"
    exp = _SHADOW.get(("opset", call.pre)) if call.pre is not None else None
    if exp is None:
        mon.out_of_domain(name)
        return
    if call.exc is not None:
        mon.violation("load-operator-set-raises", f"written from {exp!r}, reading raised {call.exc!r}")
        return
    res = call.result
    if not isinstance(res, list) or len(res) != len(exp):
        mon.violation("load-operator-set-differs", f"{len(exp)} operators written, read back {res!r}")
        return
    try:
        for i, (e, r) in enumerate(zip(exp, res)):
            got = canon_op(r)
            why = compare_ops(e, got, "lib")
            if why:
                mon.violation("load-operator-set-differs", f"operator {i}: {e!r} came back as {got!r}: {why}")
                return
    except NotInDomain:
        mon.out_of_domain(name)
        return
    mon.ok(name)


# ---- operators: text
def _post_repr(kind):
    def post(mon, call):
        if call.exc is not None or not isinstance(call.result, str):
            return
        try:
            _SHADOW[(kind, call.result)] = canon_op(call.args[0])
            mon.note(f"printed:{kind}")
        except Exception:
            pass
    return post


def _post_term_init(mon, call):
    text = _arg(call, 1, "operator")
    if not isinstance(text, str):
        return
    name = "PauliTerm(str)"
    exp = _SHADOW.get(("term", text))
    if exp is None or _arg(call, 2, "coefficient") is not None:
        mon.out_of_domain(name)
        return
    _judge_text(mon, name, exp, call, text)


def _post_sum_init(mon, call):
    text = _arg(call, 1, "terms")
    if not isinstance(text, str):
        return
    name = "PauliSum(str)"
    exp = _SHADOW.get(("sum", text))
    if exp is None:
        exp = _SHADOW.get(("term", text))
    if exp is None:
        mon.out_of_domain(name)
        return
    _judge_text(mon, name, exp, call, text)


def _judge_text(mon, name, exp, call, text):
    tag = "-constant" if _has_constant(exp) else ""
    if call.exc is not None:
        mon.violation(f"printed-text-rejected{tag}", f"{name}: text {text!r} printed for {exp!r} raised {call.exc!r}")
        return
    try:
        got = canon_op(call.args[0])
        why = compare_ops(exp, got, "text")
    except NotInDomain:
        mon.out_of_domain(name)
        return
    if why:
        mon.violation(f"printed-text-differs{tag}", f"{name}: text {text!r} printed for {exp!r} parsed as {got!r}: {why}")
    else:
        mon.ok(name)


# ---- arrays
def _post_array_to_dict(mon, call):
    name = "convert_array_to_dict"
    try:
        exp = canon_array(_arg(call, 0, "array"))
    except Exception:
        mon.out_of_domain(name)
        return
    if call.exc is not None:
        mon.violation("array-to-dict-raises", f"{exp!r}: {call.exc!r}")
        return
    d = call.result
    try:
        back = json.loads(json.dumps(d))
    except Exception as e:
        mon.violation("array-dict-not-json", f"{exp!r} -> {d!r}: {e!r}")
        return
    if back != d:
        mon.violation("array-dict-not-json", f"{d!r} changes through JSON text: {back!r}")
        return
    _SHADOW[("array", _dict_key(d))] = exp
    mon.ok(name)


def _post_dict_to_array(mon, call):
    name = "convert_dict_to_array"
    exp = _SHADOW.get(("array", call.pre)) if call.pre is not None else None
    if exp is None:
        mon.out_of_domain(name)
        return
    if call.exc is not None:
        mon.violation("dict-to-array-raises", f"written from {exp!r}, reading raised {call.exc!r}")
        return
    try:
        got = canon_array(call.result)
    except NotInDomain:
        got = ("not an array", repr(call.result)[:200])
    if got != exp:
        mon.violation("dict-to-array-differs", f"{exp!r} came back as {got!r}")
    else:
        mon.ok(name)


# ---- generic artefact save / load pairs
def _post_save(name, kind, canon_of_call, file_index, file_name):
    def post(mon, call):
        try:
            exp = canon_of_call(call)
        except Exception:
            mon.out_of_domain(name)
            return
        if call.exc is not None:
            mon.violation(f"{kind}-save-raises", f"{exp!r}: {call.exc!r}")
            return
        text = _read_source(_arg(call, file_index, file_name))
        _SHADOW[(kind, text)] = exp
        mon.ok(name)
    return post


def _post_load(name, kind, canon_of_result, src_index=0, src_name="file"):
    def post(mon, call):
        exp = _SHADOW.get((kind, call.pre)) if call.pre is not None else None
        if exp is None:
            mon.out_of_domain(name)
            return
        tag = ""
        if kind == "nmeas" and exp[2] is None:
            tag = "-noframes"
        if call.exc is not None:
            mon.violation(f"{kind}-load-raises{tag}", f"written from {exp!r}, reading raised {call.exc!r}")
            return
        try:
            got = canon_of_result(call.result)
        except Exception as e:
            got = ("uncanonical", repr(call.result)[:200], repr(e))
        if got != exp:
            mon.violation(f"{kind}-load-differs{tag}", f"{exp!r} came back as {got!r}")
        else:
            mon.ok(name)
    return post


def _pre_load_at(index, argname):
    def pre(mon, call):
        try:
            return _read_source(_arg(call, index, argname))
        except Exception:
            return None
    return pre


def install(mon, reach):
    from orquestra.quantum import measurements as MS  # noqa: F401  (loads the sub-modules)
    from orquestra.quantum import operators as OPS  # noqa: F401
    from orquestra.quantum import utils as U
    from orquestra.quantum.circuits import layouts as LY
    from orquestra.quantum.measurements import expectation_values as EV
    from orquestra.quantum.measurements import measurements as MM
    from orquestra.quantum.measurements import parities as PA
    from orquestra.quantum.operators import _io as IO
    from orquestra.quantum.operators import _pauli_operators as PO

    reach.watch(IO.convert_dict_to_op, "convert_dict_to_op", {"imag": r"coefficient \+= 1j"})
    reach.watch(IO.convert_op_to_dict, "convert_op_to_dict", {"complex": r"\"imag\": term\.coefficient\.imag"})
    for f in ("save_operator", "load_operator", "save_operator_set", "load_operator_set"):
        reach.watch(getattr(IO, f), f)
    reach.watch(getattr(PO.PauliTerm, "__repr__", None), "PauliTerm.__repr__", {"constant": r"term_strs\.append\(\"I\"\)"})
    reach.watch(getattr(PO.PauliSum, "__repr__", None), "PauliSum.__repr__", {"empty": r"zero_identity_term = "})
    reach.watch(getattr(PO, "_parse_operators_and_coefficient", None), "_parse_operators_and_coefficient")
    reach.watch(getattr(PO, "_parse_complex", None), "_parse_complex")
    reach.watch(getattr(PO, "_parse_operator", None), "_parse_operator")
    reach.watch(getattr(PO.PauliSum, "__init__", None), "PauliSum.__init__")
    reach.watch(U.convert_dict_to_array, "convert_dict_to_array", {"imag": r"1j \* np\.array"})
    reach.watch(U.convert_array_to_dict, "convert_array_to_dict")
    reach.watch(MM.Measurements.save, "Measurements.save")
    reach.watch(MM.Measurements.load_from_file, "Measurements.load_from_file")
    reach.watch(EV.ExpectationValues.to_dict, "ExpectationValues.to_dict")
    reach.watch(EV.ExpectationValues.from_dict, "ExpectationValues.from_dict",
                {"correlations": r"correlations = \[\]", "covariances": r"estimator_covariances = \[\]"})
    reach.watch(PA.Parities.to_dict, "Parities.to_dict")
    reach.watch(PA.Parities.from_dict, "Parities.from_dict", {"correlations": r"convert_dict_to_array\(arr\)"})
    reach.watch(U.ValueEstimate.to_dict, "ValueEstimate.to_dict")
    reach.watch(U.ValueEstimate.from_dict, "ValueEstimate.from_dict")
    reach.watch(LY.CircuitLayers.from_dict, "CircuitLayers.from_dict")
    reach.watch(LY.CircuitConnectivity.from_dict, "CircuitConnectivity.from_dict")
    reach.watch(U.save_nmeas_estimate, "save_nmeas_estimate", {"frames": r"data\[\"frame_meas\"\] = "})
    reach.watch(U.load_nmeas_estimate, "load_nmeas_estimate")

    mon.hook_func(IO, "convert_op_to_dict", post=_post_op_to_dict, name="convert_op_to_dict")
    mon.hook_func(IO, "convert_dict_to_op", post=_post_dict_to_op, pre=_pre_dict_to_op, name="convert_dict_to_op")
    mon.hook_func(IO, "save_operator", post=_post_save_operator, name="save_operator")
    mon.hook_func(IO, "load_operator", post=_post_load_operator, pre=_pre_load, name="load_operator")
    mon.hook_func(IO, "save_operator_set", post=_post_save_operator_set, name="save_operator_set")
    mon.hook_func(IO, "load_operator_set", post=_post_load_operator_set, pre=_pre_load, name="load_operator_set")
    mon.hook_method(PO.PauliTerm, "__repr__", post=_post_repr("term"), name="PauliTerm.__repr__")
    mon.hook_method(PO.PauliSum, "__repr__", post=_post_repr("sum"), name="PauliSum.__repr__")
    mon.hook_method(PO.PauliTerm, "__init__", post=_post_term_init, name="PauliTerm.__init__")
    mon.hook_method(PO.PauliSum, "__init__", post=_post_sum_init, name="PauliSum.__init__")
    mon.hook_func(U, "convert_array_to_dict", post=_post_array_to_dict, name="convert_array_to_dict")
    mon.hook_func(U, "convert_dict_to_array", post=_post_dict_to_array, pre=_pre_dict_to_op, name="convert_dict_to_array")

    mon.hook_method(MM.Measurements, "save", name="Measurements.save",
                    post=_post_save("Measurements.save", "measurements", lambda c: canon_measurements(c.args[0]), 1, "filename"))
    mon.hook_method(MM.Measurements, "load_from_file", name="Measurements.load_from_file", pre=_pre_load_at(1, "file"),
                    post=_post_load("Measurements.load_from_file", "measurements", canon_measurements))

    def pair(module, save, load, kind, canon_in, canon_out):
        mon.hook_func(module, save, name=save, post=_post_save(save, kind, canon_in, 1, "filename"))
        mon.hook_func(module, load, name=load, pre=_pre_load_at(0, "file"), post=_post_load(load, kind, canon_out))

    pair(EV, "save_expectation_values", "load_expectation_values", "expvals",
         lambda c: canon_expvals(_arg(c, 0, "expectation_values")), canon_expvals)
    pair(PA, "save_parities", "load_parities", "parities", lambda c: canon_parities(_arg(c, 0, "parities")), canon_parities)
    pair(U, "save_value_estimate", "load_value_estimate", "value-estimate",
         lambda c: canon_value_estimate(_arg(c, 0, "value_estimate")), canon_value_estimate)
    pair(U, "save_list", "load_list", "list", lambda c: typed(_arg(c, 0, "array")), typed)
    pair(LY, "save_circuit_layers", "load_circuit_layers", "layers",
         lambda c: canon_layers(_arg(c, 0, "circuit_layers")), canon_layers)
    pair(LY, "save_circuit_connectivity", "load_circuit_connectivity", "connectivity",
         lambda c: canon_connectivity(_arg(c, 0, "circuit_connectivity")), canon_connectivity)
    pair(LY, "save_circuit_ordering", "load_circuit_ordering", "ordering", lambda c: typed(_arg(c, 0, "ordering")), typed)
    mon.hook_func(U, "save_nmeas_estimate", name="save_nmeas_estimate",
                  post=_post_save("save_nmeas_estimate", "nmeas",
                                  lambda c: canon_nmeas(_arg(c, 0, "nmeas"), _arg(c, 1, "nterms"), _arg(c, 3, "frame_meas")),
                                  2, "filename"))
    mon.hook_func(U, "load_nmeas_estimate", name="load_nmeas_estimate", pre=_pre_load_at(0, "filename"),
                  post=_post_load("load_nmeas_estimate", "nmeas", lambda r: canon_nmeas(*r)))


# ============================================================================ generators
SMALL_Q = [0, 1, 2, 3, 4, 5]
BIG_Q = [10, 11, 12, 25, 99, 100, 123, 1000, 4096]


def rand_coeff(rng, style=None):
    """(value, style); Python int/float/complex only"""
    style = style or rng.choice(
        ["int", "float", "float", "short", "complex", "complex", "zero_imag", "imag", "negzero_real",
         "expfmt", "tiny", "tiny_part", "large", "zero", "npfloat", "longtext"])
    s = rng.choice([-1, 1])
    if style == "int":
        v = s * rng.randint(1, 50)
    elif style == "float":
        v = rng.uniform(-10, 10) or 1.0
    elif style == "short":
        v = rng.choice([0.5, -0.25, 1.0, 2.0, -1.5, 0.1, -3.3])
    elif style == "complex":
        v = complex(rng.uniform(-5, 5) or 1.0, rng.uniform(-5, 5) or 1.0)
    elif style == "zero_imag":
        v = complex(rng.uniform(-5, 5) or 1.0, rng.choice([0.0, -0.0]))
    elif style == "imag":
        v = complex(0.0, rng.choice([rng.uniform(-5, 5) or 1.0, 2.0, -0.5, 2.5e-05]))
    elif style == "negzero_real":
        v = complex(-0.0, rng.uniform(-5, 5) or 1.0)
    elif style == "expfmt":
        m = rng.choice([1.0, 2.5, 9.999, rng.uniform(1, 10)])
        v = s * m * 10.0 ** rng.choice([-5, -6])
        if rng.random() < 0.3:
            v = complex(v, rng.choice([1.0, -2e-05]))
    elif style == "tiny":
        v = rng.choice([1e-300, 5e-324, -1e-200, 1e-12, -3e-11, complex(1e-300, -1e-300), complex(0.0, 1e-15)])
    elif style == "tiny_part":
        v = rng.choice([complex(1e-300, 2.0), complex(3.0, -1e-300), complex(5e-324, 1.5), complex(-1e-12, 0.5)])
    elif style == "large":
        v = rng.choice([s * rng.uniform(1e9, 9.9e14), s * rng.randint(10**12, 9 * 10**14),
                        complex(rng.uniform(1e9, 6e14), -rng.uniform(1e9, 6e14)), 2**49 + 1, 999999999999999.9])
    elif style == "longtext":
        # numbers whose printed form is as LONG as a float's can be: 17 significant digits behind up to four leading
        # zeros (positional notation reaches down to 1e-4), or with a two- or three-digit exponent, either sign, as
        # the real part, the imaginary part or both ("(2.5+0.00012345678901234567j)" is 29 characters)
        def long_part(lead):
            m = rng.uniform(1, 10)
            while len(repr(m)) < 17:
                m = rng.uniform(1, 10)
            return rng.choice([-1, 1]) * m * 10.0 ** rng.choice(lead)
        small = [-1, -2, -3, -4, -5, -11, -12, -100, -300]
        big = [0, 0, -1, -2, -3, -4, -5, 2, 11]
        r = rng.random()
        if r < 0.25:
            v = long_part(big)
        elif r < 0.6:
            v = complex(long_part(big), long_part(small))
        elif r < 0.8:
            v = complex(long_part(small), long_part(big))
        else:
            v = complex(rng.choice([2.5, -1.0, 0.5, 0.0]), long_part([-3, -4, -4, -5]))
    elif style == "zero":
        v = rng.choice([0, 0.0, -0.0, 0j, complex(-0.0, -0.0)])
    elif style == "npfloat":  # numpy's float / complex subclasses
        v = rng.choice([np.float64(rng.uniform(-10, 10) or 1.0), np.float64(s * 2.5e-05),
                        np.complex128(complex(rng.uniform(-5, 5) or 1.0, rng.uniform(-5, 5) or 1.0)),
                        np.complex128(complex(0.0, s * 1.5)), np.complex128(complex(s * 0.75, 0.0))])
    else:
        raise ValueError(style)
    return v, style


def rand_pool(rng):
    k = rng.choice(["small", "small", "big", "mixed"])
    if k == "small":
        return rng.sample(SMALL_Q, rng.randint(1, 5))
    if k == "big":
        return rng.sample(BIG_Q, rng.randint(1, 4))
    return rng.sample(SMALL_Q, rng.randint(1, 3)) + rng.sample(BIG_Q, rng.randint(1, 3))


def rand_ops(rng, pool, allow_empty=True):
    k = rng.randint(0 if allow_empty else 1, min(4, len(pool)))
    return {q: rng.choice("XYZ") for q in rng.sample(pool, k)}


def build_term(PauliTerm, rng, ops, coeff):
    how = rng.choice(["dict", "dict", "iterable", "dict_with_I"])
    if how == "iterable":
        return PauliTerm.from_iterable([(o, q) for q, o in ops.items()], coeff)
    d = dict(ops)
    if how == "dict_with_I":
        d[max(list(ops) + [0]) + 1] = "I"
    return PauliTerm(d, coeff)


def rand_operator(rng, PauliTerm, PauliSum, kinds=None, pool=None, max_terms=6):
    """returns (operator, spec) where spec lists (coefficient, style, ops) per term"""
    kind = rng.choice(kinds or ["term", "term", "sum_simplified", "sum_simplified", "sum_raw", "sum_raw",
                                "constant", "empty", "sum_with_constant"])
    pool = pool or rand_pool(rng)
    spec = []
    if kind == "empty":
        return (PauliSum() if rng.random() < 0.5 else PauliSum([])), ("empty", spec)
    if kind == "term":
        ops = rand_ops(rng, pool, allow_empty=rng.random() < 0.15)
        c, st = rand_coeff(rng)
        spec.append((c, st, ops))
        return build_term(PauliTerm, rng, ops, c), (kind, spec)
    if kind == "constant":
        c, st = rand_coeff(rng)
        spec.append((c, st, {}))
        t = PauliTerm("I0", c) if rng.random() < 0.5 else PauliTerm({}, c)
        return (t if rng.random() < 0.5 else PauliSum([t])), (kind, spec)
    n = rng.randint(1, max_terms)
    terms = []
    used = set()
    for i in range(n):
        if kind == "sum_raw":
            if terms and rng.random() < 0.3:
                ops = dict(rng.choice(spec)[2])  # a like term
            else:
                ops = rand_ops(rng, pool)
            c, st = rand_coeff(rng)
        else:
            ops = None
            for _ in range(20):
                cand = rand_ops(rng, pool, allow_empty=False)
                if frozenset(cand.items()) not in used:
                    ops = cand
                    break
            if ops is None:
                continue
            used.add(frozenset(ops.items()))
            st = rng.choice(["int", "float", "float", "short", "complex", "complex", "zero_imag", "imag",
                             "negzero_real", "expfmt", "tiny_part", "large", "npfloat"])
            c, st = rand_coeff(rng, st)
        spec.append((c, st, ops))
        terms.append(build_term(PauliTerm, rng, ops, c))
        if kind == "sum_raw" and rng.random() < 0.08:  # the identical term object once more
            spec.append((c, st, ops))
            terms.append(terms[-1])
    if kind == "sum_with_constant":
        c, st = rand_coeff(rng, rng.choice(["int", "float", "complex", "imag", "expfmt", "large", "short"]))
        spec.insert(0, (c, st, {}))
        terms.insert(0, PauliTerm({}, c))
        if rng.random() < 0.5:
            order = list(range(len(terms)))
            rng.shuffle(order)
            terms = [terms[i] for i in order]
            spec = [spec[i] for i in order]
    if rng.random() < 0.15:  # the signature says Sequence[PauliTerm]
        return PauliSum(tuple(terms)), (kind, spec)
    return PauliSum(terms), (kind, spec)


def near_sibling(rng, PauliTerm, PauliSum, op, spec):
    """an operator on the same Pauli strings as ``op`` whose coefficients differ from op's by a few parts in 1e7
    (the library's term equality and term hash take the two for equal; as operators they are different) - or, now
    and then, an equal operator built afresh"""
    kind, terms_spec = spec
    if kind == "empty" or not terms_spec:
        return (PauliSum(), spec)
    same = rng.random() < 0.15
    new_spec, terms = [], []
    for c, st, ops in terms_spec:
        c2 = complex(c)
        if not same:
            d = rng.choice([2e-7, -3e-7, 4e-7, 3e-6, -2e-8])
            c2 = c2 * (1 + d) if c2 != 0 else complex(d)
        c2 = c2.real if c2.imag == 0 else c2
        new_spec.append((c2, "sibling", ops))
        terms.append(PauliTerm(dict(ops), c2) if ops else PauliTerm({}, c2))
    if len(terms) == 1 and isinstance(op, PauliTerm):
        return terms[0], (kind, new_spec)
    return PauliSum(terms), (kind, new_spec)


def spec_text(spec):
    kind, terms = spec
    return kind + "[" + "; ".join(f"{c!r}:{''.join(f'{o}{q}' for q, o in sorted(ops.items())) or 'I'}" for c, _s, ops in terms) + "]"


def spec_nontrivial(spec):
    kind, terms = spec
    feats = set()
    for c, st, ops in terms:
        if isinstance(c, complex) and c.imag != 0:
            feats.add("nonreal")
        if not ops:
            feats.add("constant")
        if any(q >= 10 for q in ops):
            feats.add("multidigit")
        if st in ("expfmt", "tiny", "tiny_part", "large"):
            feats.add(st)
    return len(terms) >= 2 and bool(feats)


BIG_INTS = [2**53 + 1, 2**53 - 1, 2**53 + 2, 2**60 + 3, 2**62 + 12345, 2**63 - 1, 2**31 + 1, 2**32, 10**18 + 7,
            2**24 + 1, 2**56 + 2**29 + 1]


def rand_big_int(rng, signed=True):
    r = rng.random()
    if r < 0.5:
        v = rng.choice(BIG_INTS)
    elif r < 0.8:
        v = rng.randint(2**53, 2**63 - 1)
    else:
        v = rng.randint(0, 1000)
    if signed and rng.random() < 0.3:
        v = -v - (1 if v == 2**63 - 1 and rng.random() < 0.5 else 0)
    return v


def rand_values(rng, shape, kind=None):
    kind = kind or rng.choice(["float", "float", "int", "complex", "complex", "zero_imag", "special", "bigint",
                               "narrow"])
    n = int(np.prod(shape)) if shape else 1
    if kind == "bigint":  # exact integers beyond 2**53, within one integer dtype
        sub = rng.choice(["int64", "int64", "count"])
        a = np.array([rand_big_int(rng, signed=sub == "int64") for _ in range(n)], dtype=np.int64)
        return a.reshape(shape), f"bigint-{sub}"
    if kind == "narrow":  # narrow dtypes; every value is exact in the dtype
        dt = rng.choice(["int8", "uint8", "int32", "float32", "float16", "complex64"])
        if dt == "complex64":
            a = np.array([complex(rng.randint(-8, 8) / 4, rng.randint(-8, 8) / 8) for _ in range(n)], dtype=dt)
        elif dt.startswith("float"):
            a = np.array([rng.randint(-64, 64) / 16 for _ in range(n)], dtype=dt)
        else:
            a = np.array([rng.randint(0, 127) for _ in range(n)], dtype=dt)
        return a.reshape(shape), f"narrow-{dt}"
    if kind == "float":
        flat = [rng.uniform(-1, 1) for _ in range(n)]
        a = np.array(flat, dtype=float)
    elif kind == "int":
        a = np.array([rng.randint(-20, 500) for _ in range(n)], dtype=int)
    elif kind == "complex":
        a = np.array([complex(rng.uniform(-1, 1), rng.uniform(-1, 1)) for _ in range(n)], dtype=complex)
    elif kind == "zero_imag":
        a = np.array([complex(rng.uniform(-1, 1), 0.0) for _ in range(n)], dtype=complex)
    else:
        pool = [0.0, -0.0, 1e-300, -1e300, 5e-324, 1.0, -1.0, 0.1, 1e15, 2.0**53 + 2, 1 / 3]
        a = np.array([rng.choice(pool) for _ in range(n)], dtype=float)
        if rng.random() < 0.4:
            a = a + 1j * np.array([rng.choice(pool) for _ in range(n)], dtype=float)
    return a.reshape(shape), kind


def rand_frames(rng, complex_ok=True, extra_axis=None):
    k = rng.choice([0, 0, 1, 1, 2, 3])
    if k == 0:
        return rng.choice([None, []]), "none"
    frames = []
    kinds = set()
    for _ in range(k):
        n = rng.randint(1, 4)
        shape = (n, n) if extra_axis is None else (n, n, extra_axis)
        a, kd = rand_values(rng, shape, None if complex_ok else rng.choice(["float", "int", "bigint"]))
        kinds.add(kd)
        frames.append(a)
    return frames, f"{k}x{sorted(kinds)}"


def rand_json_value(rng, depth):
    r = rng.random()
    if depth > 0 and r < 0.35:
        return [rand_json_value(rng, depth - 1) for _ in range(rng.randint(0, 4))]
    if depth > 0 and r < 0.42:
        return {rng.choice(["a", "b", "key", "0", "é"]): rand_json_value(rng, depth - 1) for _ in range(rng.randint(0, 3))}
    return rng.choice([
        rng.randint(-1000, 1000), rng.uniform(-5, 5), 0, 0.0, -0.0, 1e-300, 1e300, 2**63, -(2**70), 1.0, True, False, None,
        "", "text", "ünï", "a\"b\\c\n", 3.141592653589793, 5e-324, 1e16, 123456789012345678,
    ])


# ============================================================================ cases
def _tmpdir():
    global _TMP
    if _TMP is None:
        # memory-backed when there is one: tens of thousands of small files are written, read and removed
        shm = "/dev/shm"
        _TMP = tempfile.mkdtemp(prefix="rv-c11-", dir=shm if os.path.isdir(shm) and os.access(shm, os.W_OK | os.X_OK) else None)
    return _TMP


def _lists(frames):
    return frames if not frames else [m.tolist() for m in frames]


def _load(rng, loader, path):
    """call a loader with a path, a caller-opened file (several encodings) or a StringIO"""
    how = rng.choice(["path", "path", "file", "file", "file-enc", "stringio", "duck", "codecs", "tempfile", "wrapper"])
    if how == "path":
        return loader(path), how
    if how in ("duck", "codecs", "tempfile", "wrapper"):
        # open files that are not io.IOBase instances / not what open() returns: anything with read() is an open file
        # to the library's Readable protocol (and to json.load)
        with open(path, "rb") as f:
            raw = f.read()
        if how == "duck":
            class _Reader:
                def __init__(self, text):
                    self._text, self._done = text, False

                def read(self, size=-1):
                    if self._done:
                        return ""
                    self._done = True
                    return self._text
            return loader(_Reader(raw.decode("utf-8"))), how
        if how == "codecs":
            import codecs

            with codecs.open(path, "r", encoding="utf-8") as f:
                return loader(f), how
        if how == "tempfile":
            import tempfile

            with tempfile.NamedTemporaryFile("w+", encoding="utf-8", suffix=".json") as f:
                f.write(raw.decode("utf-8"))
                f.seek(0)
                return loader(f), how
        return loader(io.TextIOWrapper(io.BytesIO(raw), encoding="utf-8")), how
    if how == "file":
        with open(path, "r") as f:
            return loader(f), how
    if how == "file-enc":
        with open(path, "rb") as f:
            ascii_only = all(b < 128 for b in f.read())
        enc = rng.choice(["utf-8", "ascii", "latin-1"]) if ascii_only else "utf-8"
        with open(path, "r", encoding=enc) as f:
            return loader(f), how
    with open(path, "r") as f:
        text = f.read()
    return loader(io.StringIO(text)), how


def _target(rng, path):
    """a path as the savers annotated AnyPath may get it: str, pathlib.Path or bytes"""
    how = rng.choice(["str", "str", "str", "pathlib", "bytes"])
    if how == "pathlib":
        return pathlib.Path(path)
    if how == "bytes":
        return os.fsencode(path)
    return path


# ---------------------------------------------------------------------------- histories
MUTATIONS = ("coef", "terms", "edit-dict", "loaded")


def op_plan(rng, qubits):
    """observe, change, observe [, change, observe]: a list of steps (tuples of plain values).
    observations: ('dict', lib) ('file', path no) ('set', member tokens, path no) ('text', printer, term parser?)
    changes: ('coef', term no, value) ('terms', 'append'|'drop', in place?, ops, coefficient)
             ('edit-dict', what) ('loaded',)"""
    pool = qubits[:4] or [0, 1]

    def obs(prev=None):
        if prev is not None and rng.random() < 0.55:
            k = prev[0]
        else:
            k = rng.choice(["dict", "dict", "file", "file", "set", "text"])
        if k == "dict":
            return ("dict", rng.choice(["json", "rapidjson"]))
        if k == "file":
            if prev is not None and prev[0] in ("file", "set") and rng.random() < 0.7:
                return ("file", prev[-1])  # the same path once more
            return ("file", rng.choice([0, 1]))
        if k == "set":
            toks = [rng.choice(["op", "op", "copy", "other", f"term{rng.randint(0, 5)}"]) for _ in range(rng.randint(0, 3))]
            toks.insert(rng.randint(0, len(toks)), "op")
            no = prev[-1] if prev is not None and prev[0] in ("file", "set") and rng.random() < 0.7 else rng.choice([0, 1])
            return ("set", toks, no)
        return ("text", rng.choice(["str", "repr", "format"]), rng.random() < 0.7)

    def change(prev):
        ks = ["coef", "coef", "coef", "terms", "terms"]
        if prev[0] == "dict":
            ks += ["edit-dict"] * 5 + ["loaded"]
        if prev[0] in ("file", "set"):
            ks += ["loaded"] * 2
        k = rng.choice(ks)
        if k == "coef":
            return ("coef", rng.randint(0, 5), rand_coeff(rng, rng.choice(["int", "float", "short", "complex", "imag",
                                                                              "expfmt", "large", "npfloat"]))[0])
        if k == "terms":
            ops = sorted(rand_ops(rng, pool).items())
            return ("terms", rng.choice(["append", "append", "drop"]), rng.random() < 0.5, ops,
                    rand_coeff(rng, rng.choice(["int", "float", "complex", "short"]))[0])
        if k == "edit-dict":
            return ("edit-dict", rng.choice(["negate", "negate", "shift", "shift", "strip", "clear"]))
        return ("loaded",)

    plan = [obs()]
    for _ in range(rng.choice([1, 1, 1, 2])):
        plan.append(change(plan[-1]))
        prev_obs = [s for s in plan if s[0] not in MUTATIONS][-1]
        plan.append(obs(prev_obs))
    return plan


def _poke(a, x):
    """a.flat[0] = x in place, with a value the dtype can hold"""
    if a is None or not getattr(a, "size", 0):
        return
    if a.dtype.kind in "fc":
        a.flat[0] = x
    elif a.dtype.kind in "iu":
        a.flat[0] = int(x) if a.dtype.itemsize >= 8 else 7
    else:
        a.flat[0] = 1


def make_artefact(rng, kind, lib):
    """one persisted artefact with its save / load / canonical view, a few ways of changing it through its public
    attributes (reassigning them or modifying them in place), and a way of modifying a loaded copy.
    Returns a dict: desc, file (bool), observe(path) -> loaded, load(path), cur() -> canonical value now,
    canon(loaded), check() / check_for(canonical) -> name of the driver check, muts [(text, fn)], scribble(loaded)."""
    U, LY = lib["U"], lib["LY"]
    art = {"file": True}

    def std(check, save, loader, cur, canon):
        art.update(observe=lambda p: (save(_target(rng, p)), _load(rng, loader, p)[0])[1],
                   load=lambda p: _load(rng, loader, p)[0], cur=cur, canon=canon,
                   check=lambda: check, check_for=lambda exp: check)

    def bits(n):
        return tuple(rng.randint(0, 1) for _ in range(n))

    if kind == "measurements":
        n = rng.randint(1, 5)
        m = lib["Measurements"]([bits(n) for _ in range(rng.choice([0, 1, 3, 6]))])
        new = [bits(n) for _ in range(rng.choice([0, 2, 4]))]
        t1, t2 = bits(n), bits(n)
        art["desc"] = f"{[''.join(map(str, b)) for b in m.bitstrings]!r}"
        std("measurements-roundtrip", m.save, lib["Measurements"].load_from_file, lambda: canon_measurements(m),
            canon_measurements)
        art["muts"] = [
            (f"bitstrings = {new!r}", lambda: setattr(m, "bitstrings", new)),
            (f"bitstrings.append({t1!r})", lambda: m.bitstrings.append(t1)),
            (f"bitstrings[0] = {t2!r}", lambda: m.bitstrings.__setitem__(0, t2) if m.bitstrings else m.bitstrings.append(t2)),
            ("del bitstrings[-1]", lambda: m.bitstrings.pop() if m.bitstrings else m.bitstrings.append(t1)),
        ]
        art["scribble"] = lambda b: (b.bitstrings.append((1,) * n), setattr(b, "bitstrings", b.bitstrings[::-1]))
        return art

    if kind in ("expvals", "parities"):
        nv = rng.choice([1, 2, 3, 4])
        if kind == "expvals":
            vals, vk = rand_values(rng, (nv,))
            new_vals = rand_values(rng, (rng.choice([1, 2, 3]),))[0]
            corr, ck = rand_frames(rng)
            cov, _ = rand_frames(rng)
            new_frames = rand_frames(rng)[0]
            obj = lib["ExpectationValues"](vals, corr, cov)
            std("expvals-roundtrip", lambda p: lib["save_expectation_values"](obj, p), lib["load_expectation_values"],
                lambda: canon_expvals(obj), canon_expvals)
        else:
            vals, vk = rand_values(rng, (nv, 2), rng.choice(["int", "int", "bigint", "float"]))
            new_vals = rand_values(rng, (rng.choice([1, 2, 3]), 2), rng.choice(["int", "bigint"]))[0]
            corr, ck = rand_frames(rng, complex_ok=False, extra_axis=2)
            new_frames = rand_frames(rng, complex_ok=False, extra_axis=2)[0]
            obj = lib["Parities"](vals, corr)
            std("parities-roundtrip", lambda p: lib["save_parities"](obj, p), lib["load_parities"],
                lambda: canon_parities(obj), canon_parities)
        x = rng.choice([0.125, -3.0, 2**53 + 1, 7])

        def poke(a):
            _poke(a, x)

        def poke_frame(name):
            fr = getattr(obj, name)
            if fr:
                poke(fr[-1])
            else:
                setattr(obj, name, new_frames)
        art["desc"] = f"values={vk}:{vals.tolist()!r} corr={ck}:{_lists(corr)!r}"
        art["muts"] = [
            (f"values.flat[0] = {x!r}", lambda: poke(obj.values)),
            (f"values = {new_vals.tolist()!r}", lambda: setattr(obj, "values", new_vals)),
            (f"correlations = {_lists(new_frames)!r}", lambda: setattr(obj, "correlations", new_frames)),
            ("correlations = None", lambda: setattr(obj, "correlations", None)),
            (f"correlations[-1].flat[0] = {x!r}", lambda: poke_frame("correlations")),
        ]
        if kind == "expvals":
            art["muts"] += [
                (f"estimator_covariances = {_lists(new_frames)!r}", lambda: setattr(obj, "estimator_covariances", new_frames)),
                (f"estimator_covariances[-1].flat[0] = {x!r}", lambda: poke_frame("estimator_covariances")),
            ]
        art["scribble"] = lambda b: (poke(b.values), setattr(b, "correlations", None if b.correlations else new_frames))
        return art

    if kind == "value_estimate":
        v = rng.choice([rng.uniform(-10, 10), 0.0, 3, 2.5, 1e-300, np.float64(rng.uniform(-1, 1))])
        precisions = [None, 0.0, 0.25, 1e-9, 1, np.float64(0.125), rng.uniform(0, 1)]
        pr = rng.choice(precisions)
        ve = U.ValueEstimate(v, pr)
        news = [q for q in precisions if q is not pr]
        a, b = rng.choice(news), rng.choice(news)
        art["desc"] = f"{v!r} precision {pr!r}"
        std("value-estimate-roundtrip", lambda p: U.save_value_estimate(ve, p), U.load_value_estimate,
            lambda: canon_value_estimate(ve), canon_value_estimate)
        art["muts"] = [(f"precision = {a!r}", lambda: setattr(ve, "precision", a)),
                       (f"precision = {b!r}", lambda: setattr(ve, "precision", b))]
        art["scribble"] = lambda x: setattr(x, "precision", 123.0)
        return art

    def group():
        return tuple(rng.sample(range(0, 40), rng.choice([2, 2, 2, 1, 3, 0])))

    if kind in ("layers", "connectivity"):
        if kind == "layers":
            data = [[group() for _ in range(rng.randint(0, 3))] for _ in range(rng.randint(0, 3))]
            new = [[group() for _ in range(rng.randint(0, 3))] for _ in range(rng.randint(0, 3))]
            item = [group() for _ in range(rng.randint(0, 2))]
            obj, attr = LY.CircuitLayers(data), "layers"
            std("layout-roundtrip", lambda p: LY.save_circuit_layers(obj, os.fsdecode(p)), LY.load_circuit_layers,
                lambda: canon_layers(obj), canon_layers)
        else:
            data = [group() for _ in range(rng.randint(0, 5))]
            new = [group() for _ in range(rng.randint(0, 5))]
            item = group()
            obj, attr = LY.CircuitConnectivity(data), "connectivity"
            std("layout-roundtrip", lambda p: LY.save_circuit_connectivity(obj, os.fsdecode(p)), LY.load_circuit_connectivity,
                lambda: canon_connectivity(obj), canon_connectivity)
        g = group()
        art["desc"] = f"{data!r}"
        art["muts"] = [
            (f"{attr} = {new!r}", lambda: setattr(obj, attr, new)),
            (f"{attr}.append({item!r})", lambda: getattr(obj, attr).append(item)),
            (f"{attr}[0] changed ({g!r})", lambda: (getattr(obj, attr)[0].append(g) if kind == "layers"
                                                      else getattr(obj, attr).__setitem__(0, g))
             if getattr(obj, attr) else getattr(obj, attr).append(item)),
        ]
        art["scribble"] = lambda b: (getattr(b, attr).append(item), getattr(b, attr).reverse())
        return art

    if kind in ("ordering", "list"):
        if kind == "ordering":
            data = rng.sample(range(12), rng.randint(0, 12))
            v1, v2 = rng.randint(0, 40), rng.randint(0, 40)
            std("layout-roundtrip", lambda p: LY.save_circuit_ordering(data, os.fsdecode(p)), LY.load_circuit_ordering,
                lambda: typed(data), typed)
        else:
            data = [rand_json_value(rng, 2) for _ in range(rng.choice([0, 1, 3, 5]))]
            v1, v2 = rand_json_value(rng, 1), rand_json_value(rng, 0)
            std("list-roundtrip", lambda p: U.save_list(data, p), U.load_list, lambda: typed(data), typed)
        art["desc"] = f"{data!r}"

        def nested():
            for x in data:
                if isinstance(x, list):
                    x.append(v2)
                    return
            data.insert(0, v2)
        art["muts"] = [
            (f"append({v1!r})", lambda: data.append(v1)),
            (f"[0] = {v2!r}", lambda: data.__setitem__(0, v2) if data else data.append(v2)),
            ("reverse()", lambda: data.reverse() if len(data) >= 2 else data.append(v1)),
            (f"nested append({v2!r})", nested),
        ]
        art["scribble"] = lambda b: (b.append("scribble"), b.reverse())
        return art

    if kind == "nmeas":
        s = {"K": rng.choice([rng.uniform(0, 1e4), 17, 0.5, rand_big_int(rng, False)]),
             "nterms": rng.choice([0, 3, 14, 2**40, rand_big_int(rng, False)]),
             "frames": rng.choice([None, np.array([rng.uniform(0, 1) for _ in range(rng.randint(1, 4))]),
                                   np.array([rand_big_int(rng, False) for _ in range(rng.randint(1, 4))], dtype=np.int64)])}
        k2 = rng.choice([rng.uniform(0, 1e4), 18, rand_big_int(rng, False)])
        n2 = rng.choice([1, 15, rand_big_int(rng, False)])
        f2 = rng.choice([None, np.array([rng.randint(0, 10**6) for _ in range(rng.randint(1, 4))]),
                         np.array([rng.uniform(0, 1) for _ in range(rng.randint(1, 4))])])
        x = rng.choice([0.5, 2**53 + 1, 12])

        def poke():
            if s["frames"] is not None and s["frames"].size:
                _poke(s["frames"], x)
            else:
                s["frames"] = f2
        art["desc"] = f"K={s['K']!r} nterms={s['nterms']!r} frames={None if s['frames'] is None else s['frames'].tolist()!r}"
        art.update(
            observe=lambda p: (U.save_nmeas_estimate(s["K"], s["nterms"], _target(rng, p), s["frames"]),
                               U.load_nmeas_estimate(_target(rng, p)))[1],
            load=lambda p: U.load_nmeas_estimate(_target(rng, p)),
            cur=lambda: canon_nmeas(s["K"], s["nterms"], s["frames"]), canon=lambda r: canon_nmeas(*r),
            check=lambda: "nmeas-roundtrip-noframes" if s["frames"] is None else "nmeas-roundtrip",
            check_for=lambda exp: "nmeas-roundtrip-noframes" if exp[2] is None else "nmeas-roundtrip")
        art["muts"] = [
            (f"nmeas = {k2!r}", lambda: s.__setitem__("K", k2)),
            (f"nterms = {n2!r}", lambda: s.__setitem__("nterms", n2)),
            (f"frame_meas = {None if f2 is None else f2.tolist()!r}", lambda: s.__setitem__("frames", f2)),
            (f"frame_meas.flat[0] = {x!r}", poke),
        ]

        def scribble(r):
            if r[2] is not None and r[2].size:
                r[2].flat[0] = 5
        art["scribble"] = scribble
        return art

    if kind == "array":
        shape = rng.choice([(1,), (3,), (5,), (2, 2), (3, 1), (2, 3, 2)])
        s = {"a": rand_values(rng, shape)[0], "d": None}
        a2 = rand_values(rng, rng.choice([(2,), (2, 2), shape]))[0]
        x = rng.choice([0.125, -3.0, 2**53 + 1, 7])
        via = rng.choice(["json", "rapidjson"])

        def observe(p):
            d = U.convert_array_to_dict(s["a"])
            s["d"] = d
            d2 = json.loads(json.dumps(d)) if via == "json" else lib["rapidjson"].loads(lib["rapidjson"].dumps(d))
            return U.convert_dict_to_array(d2)

        def poke():
            _poke(s["a"], x)

        def edit_dict():  # the caller scribbles on the dictionary an earlier conversion returned
            d = s["d"]
            if isinstance(d, dict):
                for k in list(d):
                    if isinstance(d[k], list) and d[k]:
                        d[k][0] = [99] if isinstance(d[k][0], list) else 99
                        d[k].append(d[k][0])
                d["imag"] = d.get("real")
        art.update(file=False, desc=f"shape={shape} via {via} {s['a'].tolist()!r}", observe=observe, load=None,
                   cur=lambda: canon_array(s["a"]), canon=canon_array, check=lambda: "array-roundtrip",
                   check_for=lambda exp: "array-roundtrip")
        art["muts"] = [
            (f"array.flat[0] = {x!r}", poke),
            (f"array = {a2.tolist()!r}", lambda: s.__setitem__("a", a2)),
            ("earlier dictionary edited in place", edit_dict),
            ("earlier dictionary edited in place, then " + f"array.flat[0] = {x!r}", lambda: (edit_dict(), poke())),
        ]
        art["scribble"] = lambda b: None
        return art
    raise ValueError(kind)


def _roundtrip(ctx, name, do, equal, what):
    """run ``do`` (save+load), compare with ``equal``; an exception is a failed round trip"""
    try:
        back = do()
    except Exception as e:  # judged: the artefact could not be saved and read back
        ctx.check(name, False, f"{what}: raised {e!r}")
        return None
    why = equal(back)
    ctx.check(name, why is None, lambda: f"{what}: {why}")
    return back


def run_case(ctx):
    import rapidjson

    from orquestra.quantum.circuits import layouts as LY
    from orquestra.quantum.measurements import (
        ExpectationValues, Measurements, Parities, load_expectation_values, load_parities,
        save_expectation_values, save_parities,
    )
    from orquestra.quantum.operators import (
        PauliSum, PauliTerm, convert_dict_to_op, convert_op_to_dict, load_operator, load_operator_set,
        save_operator, save_operator_set,
    )
    from orquestra.quantum import utils as U

    rng = ctx.rng
    cls = ctx.cls
    if cls == "history":  # one class (a history costs 2-3 single round trips): half operators, half other artefacts
        cls = "op_history" if rng.random() < 0.5 else "artefact_history"
    _SHADOW.clear()
    suffix = rng.choice(["", "", "", "-\u00e9", " \u00fcn\u00ef-\u03b1"])
    path = os.path.join(_tmpdir(), f"{cls}-{ctx.index}{suffix}.json")
    path2 = os.path.join(_tmpdir(), f"{cls}-{ctx.index}{suffix}-b.json")

    def ops_equal(exp, mode):
        def eq(back):
            try:
                got = canon_op(back)
            except Exception as e:
                return f"result {back!r} is not an operator ({e!r})"
            try:
                return compare_ops(exp, got, mode)
            except NotInDomain:  # the generators keep exp within _MAXQ qubits: the result acts on qubits exp does not have
                return f"result {got!r} acts on other qubits than {exp!r}"
        return eq

    try:
        if cls == "op_dict":
            op, spec = rand_operator(rng, PauliTerm, PauliSum)
            lib = rng.choice(["json", "rapidjson", "rapidjson-indent"])
            ctx.describe(f"op_dict via {lib} {spec_text(spec)}", spec_nontrivial(spec))
            exp = canon_op(op)

            def do():
                d = convert_op_to_dict(op)
                if lib == "json":
                    d2 = json.loads(json.dumps(d))
                elif lib == "rapidjson":
                    d2 = rapidjson.loads(rapidjson.dumps(d))
                else:
                    d2 = rapidjson.loads(rapidjson.dumps(d, indent=2))
                return convert_dict_to_op(d2)
            _roundtrip(ctx, "op-dict-roundtrip", do, ops_equal(exp, "lib"), spec_text(spec))
            return

        if cls == "op_file":
            if rng.random() < 0.55:
                op, spec = rand_operator(rng, PauliTerm, PauliSum)
                ctx.describe(f"op_file single {spec_text(spec)}", spec_nontrivial(spec))
                exp = canon_op(op)

                def do():
                    save_operator(op, _target(rng, path))
                    with open(path) as f:
                        json.load(f)
                    return _load(rng, load_operator, path)[0]
                _roundtrip(ctx, "op-file-roundtrip", do, ops_equal(exp, "lib"), spec_text(spec))
            else:
                pairs = [rand_operator(rng, PauliTerm, PauliSum) for _ in range(rng.choice([0, 1, 2, 2, 3, 4]))]
                if pairs and rng.random() < 0.4:
                    # members that agree with an earlier member in everything but a few parts in 1e7 of a coefficient
                    for _ in range(rng.randint(1, 2)):
                        src = rng.choice(pairs)
                        pairs.insert(rng.randint(0, len(pairs)), near_sibling(rng, PauliTerm, PauliSum, *src))
                ops = [p[0] for p in pairs]
                txt = " | ".join(spec_text(p[1]) for p in pairs)
                ctx.describe(f"op_file set of {len(ops)}: {txt}", len(ops) >= 2 and any(spec_nontrivial(p[1]) for p in pairs))
                exps = [canon_op(o) for o in ops]

                def do():
                    save_operator_set(ops, _target(rng, path))
                    with open(path) as f:
                        json.load(f)
                    return _load(rng, load_operator_set, path)[0]

                def eq(back):
                    if not isinstance(back, list) or len(back) != len(exps):
                        return f"{len(exps)} operators saved, loaded {back!r}"
                    for i, (e, b) in enumerate(zip(exps, back)):
                        why = ops_equal(e, "lib")(b)
                        if why:
                            return f"operator {i}: {why}"
                    return None
                _roundtrip(ctx, "op-set-roundtrip", do, eq, txt)
            return

        if cls == "op_text" and ctx.index % 400 == 399:
            # a LONG sum (1100 - 2400 terms on six qubits, dyadic coefficients): the printed text of a big Hamiltonian
            # reads back like that of a small one - no limit on the number of terms is stated
            import itertools as _it

            k = rng.choice([1100, 1500, 2400])
            strings = list(_it.islice(_it.product("IXYZ", repeat=6), 1, 4096))
            rng.shuffle(strings)
            terms = []
            for j, st in enumerate(strings[:k]):
                ops_ = {q: o for q, o in enumerate(st) if o != "I"}
                c = (rng.randint(1, 64) / 8.0) * rng.choice([1, -1])
                terms.append(PauliTerm(ops_, complex(c, rng.randint(-8, 8) / 8.0) if j % 5 == 0 else c))
            op = PauliSum(terms)
            ctx.describe(f"op_text long sum of {k} terms on 6 qubits", True)
            ctx.mon.note("op_text:long-sum")
            exp = canon_op(op)
            _roundtrip(ctx, "op-text-roundtrip", lambda: PauliSum(str(op)), ops_equal(exp, "text"), f"sum of {k} terms")
            return
        if cls == "op_text":
            op, spec = rand_operator(rng, PauliTerm, PauliSum)
            printer = rng.choice(["str", "repr", "format"])
            is_term = isinstance(op, PauliTerm)
            parser = "PauliTerm" if (is_term and rng.random() < 0.7) else "PauliSum"
            ctx.describe(f"op_text {printer}->{parser} {spec_text(spec)}", spec_nontrivial(spec))
            exp = canon_op(op)
            name = "op-text-roundtrip-constant" if _has_constant(exp) else "op-text-roundtrip"

            def do():
                text = str(op) if printer == "str" else repr(op) if printer == "repr" else f"{op}"
                return PauliTerm(text) if parser == "PauliTerm" else PauliSum(text)
            _roundtrip(ctx, name, do, ops_equal(exp, "text"), spec_text(spec))
            return

        if cls == "measurements":
            n = rng.choice([0, 1, 1, 2, 3, 4, 6, 12])
            shots = rng.choice([0, 0, 1, 2, 5, 20, 60])
            style = rng.choice(["tuples", "tuples", "np.int8", "from_counts", "default"])
            if style == "from_counts":
                counts = {}
                for _ in range(rng.randint(0, 4)):
                    counts["".join(rng.choice("01") for _ in range(max(n, 1)))] = rng.randint(1, 5)
                m = Measurements.from_counts(counts)
            elif style == "default":
                m = Measurements()
            else:
                bs = [tuple(rng.randint(0, 1) for _ in range(n)) for _ in range(shots)]
                if style == "np.int8":
                    bs = [tuple(np.int8(b) for b in t) for t in bs]
                m = Measurements(bs)
            exp = canon_measurements(m)
            ctx.describe(f"measurements {style} {[''.join(map(str, b)) for _t, b in exp]!r}"[:600],
                         len(exp) >= 3 and len({tuple(b) for _t, b in exp}) >= 2)

            def do():
                m.save(_target(rng, path))
                return _load(rng, Measurements.load_from_file, path)[0]
            _roundtrip(ctx, "measurements-roundtrip", do,
                       lambda b: None if canon_measurements(b) == exp else f"loaded {canon_measurements(b)!r}", repr(exp)[:300])
            return

        if cls == "expvals":
            nv = rng.choice([0, 1, 2, 3, 6])
            vals, vk = rand_values(rng, (nv,))
            if rng.random() < 0.05:
                vals, vk = rand_values(rng, ())
            corr, ck = rand_frames(rng)
            cov, vk2 = rand_frames(rng)
            ev = ExpectationValues(vals, corr, cov)
            exp = canon_expvals(ev)
            ctx.describe(f"expvals values={vk}{exp[0][1:]} corr={ck}:{_lists(corr)!r} cov={vk2}:{_lists(cov)!r}"[:600],
                         nv >= 2 and (bool(corr) or bool(cov) or np.iscomplexobj(vals)))

            def do():
                save_expectation_values(ev, _target(rng, path))
                return _load(rng, load_expectation_values, path)[0]
            _roundtrip(ctx, "expvals-roundtrip", do,
                       lambda b: None if canon_expvals(b) == exp else f"loaded {canon_expvals(b)!r}", repr(exp)[:400])
            return

        if cls == "parities":
            nterms = rng.randint(1, 5)
            values = np.array([[rng.randint(0, 500), rng.randint(0, 500)] for _ in range(nterms)], dtype=int)
            tk = rng.random()
            if tk < 0.2:
                values = values.astype(float)
            elif tk < 0.45:  # tallies beyond 2**53 (exact integers)
                values = np.array([[rand_big_int(rng, False), rand_big_int(rng, False)] for _ in range(nterms)],
                                  dtype=np.int64)
            corr, ck = rand_frames(rng, complex_ok=False, extra_axis=2)
            p = Parities(values, corr)
            exp = canon_parities(p)
            ctx.describe(f"parities {values.tolist()} corr={ck}:{_lists(corr)!r}"[:600], nterms >= 2 and bool(corr))

            def do():
                save_parities(p, _target(rng, path))
                return _load(rng, load_parities, path)[0]
            _roundtrip(ctx, "parities-roundtrip", do,
                       lambda b: None if canon_parities(b) == exp else f"loaded {canon_parities(b)!r}", repr(exp)[:400])
            return

        if cls == "value_estimate":
            v = rng.choice([rng.uniform(-10, 10), rng.uniform(-10, 10), 0.0, -0.0, 1e-300, -1e300, 3, 2.5, 1 / 3,
                            np.float64(rng.uniform(-1, 1))])
            pr = rng.choice([None, None, rng.uniform(0, 1), 0.0, 1e-9, 1, np.float64(0.125), 1e-300])
            ve = U.ValueEstimate(v, pr) if (pr is not None or rng.random() < 0.5) else U.ValueEstimate(v)
            exp = canon_value_estimate(ve)
            ctx.describe(f"value_estimate {type(v).__name__} {v!r} precision {type(pr).__name__} {pr!r}", pr is not None)

            def do():
                U.save_value_estimate(ve, _target(rng, path))
                return _load(rng, U.load_value_estimate, path)[0]
            _roundtrip(ctx, "value-estimate-roundtrip", do,
                       lambda b: None if canon_value_estimate(b) == exp else f"loaded {canon_value_estimate(b)!r}", repr(exp))
            return

        if cls == "lists":
            depth = rng.choice([0, 1, 2, 3])
            lst = [rand_json_value(rng, depth) for _ in range(rng.choice([0, 1, 3, 6]))]
            exp = typed(lst)
            ctx.describe(f"list {lst!r}"[:600], len(lst) >= 2 and any(isinstance(x, (list, dict)) and x for x in lst))

            def do():
                U.save_list(lst, _target(rng, path))
                return _load(rng, U.load_list, path)[0]
            _roundtrip(ctx, "list-roundtrip", do, lambda b: None if typed(b) == exp else f"loaded {b!r}", repr(lst)[:400])
            return

        if cls == "layouts":
            sub = rng.choice(["layers", "layers", "connectivity", "ordering", "built"])

            def group():
                k = rng.choice([2, 2, 2, 1, 3, 0])
                return tuple(rng.sample(range(0, 40), k))
            if sub == "built":
                n = rng.randint(2, 9)
                if rng.random() < 0.5:
                    conn, layers = LY.build_circuit_layers_and_connectivity(n)
                else:
                    conn, layers = LY.build_circuit_layers_and_connectivity(rng.randint(2, 4), rng.randint(2, 4), "sycamore")
                obj, sub = (layers, "layers") if rng.random() < 0.5 else (conn, "connectivity")
                data = obj.layers if sub == "layers" else obj.connectivity
            elif sub == "layers":
                data = [[group() for _ in range(rng.randint(0, 4))] for _ in range(rng.randint(0, 4))]
                obj = LY.CircuitLayers(data)
            elif sub == "connectivity":
                data = [group() for _ in range(rng.randint(0, 6))]
                obj = LY.CircuitConnectivity(data)
            else:
                data = rng.sample(range(12), rng.randint(0, 12))
                obj = data
            exp = typed(data)
            ctx.describe(f"layouts {sub} {data!r}"[:600], len(data) >= 2 and (sub == "ordering" or any(len(x) >= 2 for x in data)))
            saver, loader, canon = {
                "layers": (LY.save_circuit_layers, LY.load_circuit_layers, canon_layers),
                "connectivity": (LY.save_circuit_connectivity, LY.load_circuit_connectivity, canon_connectivity),
                "ordering": (LY.save_circuit_ordering, LY.load_circuit_ordering, typed),
            }[sub]

            def do():
                saver(obj, path)
                return _load(rng, loader, path)[0]
            _roundtrip(ctx, "layout-roundtrip", do, lambda b: None if canon(b) == exp else f"loaded {canon(b)!r}", repr(data)[:400])
            return

        if cls == "nmeas":
            K = rng.choice([rng.uniform(0, 1e4), 0.5646124437984263, 0, 17, 1e-300, 1e15, rand_big_int(rng, False),
                            2**64 + 1])
            nterms = rng.choice([0, 1, 14, 2**40, rand_big_int(rng, False), 2**64 + 1])
            fk = rng.choice(["none", "none", "floats", "floats", "ints", "bigints", "empty", "kw"])
            if fk == "none":
                frames = None
            elif fk == "empty":
                frames = np.array([])
            elif fk == "ints":
                frames = np.array([rng.randint(0, 10**6) for _ in range(rng.randint(1, 6))])
            elif fk == "bigints":
                frames = np.array([rand_big_int(rng, False) for _ in range(rng.randint(1, 6))], dtype=np.int64)
            else:
                frames = np.array([rng.uniform(0, 1) for _ in range(rng.randint(1, 6))])
            exp = canon_nmeas(K, nterms, frames)
            ctx.describe(f"nmeas K={K!r} nterms={nterms} frames={fk} {None if frames is None else frames.tolist()}",
                         frames is not None and len(frames) >= 2)
            name = "nmeas-roundtrip-noframes" if frames is None else "nmeas-roundtrip"

            def do():
                if frames is None and rng.random() < 0.5:
                    U.save_nmeas_estimate(K, nterms, _target(rng, path))
                elif fk == "kw":
                    U.save_nmeas_estimate(nmeas=K, nterms=nterms, filename=_target(rng, path), frame_meas=frames)
                else:
                    U.save_nmeas_estimate(K, nterms, _target(rng, path), frames)
                return U.load_nmeas_estimate(_target(rng, path))

            def eq(b):
                try:
                    got = canon_nmeas(*b)
                except Exception as e:
                    return f"loaded {b!r} ({e!r})"
                return None if got == exp else f"loaded {got!r}"
            _roundtrip(ctx, name, do, eq, repr(exp)[:400])
            return

        if cls == "arrays":
            shape = rng.choice([(), (0,), (1,), (3,), (5,), (2, 2), (3, 1), (2, 3, 2), (2, 0)])
            a, kd = rand_values(rng, shape)
            exp = canon_array(a)
            lib = rng.choice(["json", "rapidjson"])
            ctx.describe(f"array {kd} shape={shape} via {lib} {a.tolist()!r}"[:600], a.size >= 2 and np.iscomplexobj(a))

            def do():
                d = U.convert_array_to_dict(a)
                d2 = json.loads(json.dumps(d)) if lib == "json" else rapidjson.loads(rapidjson.dumps(d, indent=2))
                return U.convert_dict_to_array(d2)
            _roundtrip(ctx, "array-roundtrip", do, lambda b: None if canon_array(b) == exp else f"came back {canon_array(b)!r}",
                       repr(exp)[:400])
            return
        if cls == "op_history":
            # narrow operators with few terms: what matters here is the order of calls, not the operator
            pool = rng.sample(SMALL_Q, rng.randint(1, 3)) if rng.random() < 0.7 else rng.sample(SMALL_Q + BIG_Q, 3)
            op, spec = rand_operator(rng, PauliTerm, PauliSum, pool=pool, max_terms=4,
                                     kinds=["term", "sum_simplified", "sum_simplified", "sum_raw", "sum_with_constant",
                                            "constant"])
            plan = op_plan(rng, sorted({q for t in op.terms for q, _ in t.operations}))
            other, ospec = None, ("none", [])
            if any(st[0] == "set" and "other" in st[1] for st in plan):
                other, ospec = rand_operator(rng, PauliTerm, PauliSum, pool=pool, max_terms=3)
            ctx.describe(f"op_history {spec_text(spec)} other {spec_text(ospec)} steps {plan!r}"[:600],
                         len(op.terms) >= 1 and any(st[0] in MUTATIONS for st in plan))
            paths = [path, path2]
            written = {}  # path -> ("single", canon) | ("set", [canon])
            st8 = {"d": None, "d_exp": None, "back": None, "source": None}

            def set_equal(exps):
                def eq(back):
                    if not isinstance(back, list) or len(back) != len(exps):
                        return f"{len(exps)} operators saved, loaded {back!r}"
                    for i, (e, b) in enumerate(zip(exps, back)):
                        why = ops_equal(e, "lib")(b)
                        if why:
                            return f"operator {i}: {why}"
                    return None
                return eq

            def read_again(p, what):
                kind, exp = written[p]
                if kind == "single":
                    return _roundtrip(ctx, "op-file-roundtrip", lambda: _load(rng, load_operator, p)[0],
                                      ops_equal(exp, "lib"), what)
                return _roundtrip(ctx, "op-set-roundtrip", lambda: _load(rng, load_operator_set, p)[0],
                                  set_equal(exp), what)

            for no, step in enumerate(plan):
                what = f"step {no} {step!r} of {spec_text(spec)}"
                kind = step[0]
                nterms = len(op.terms)
                ctx.mon.note(f"history-step:{kind}")
                if kind == "dict":
                    exp = canon_op(op)

                    def do():
                        d = convert_op_to_dict(op)
                        d2 = json.loads(json.dumps(d)) if step[1] == "json" else rapidjson.loads(rapidjson.dumps(d))
                        st8.update(d=d, d_exp=exp, source=("dict", d2, exp))
                        return convert_dict_to_op(d2)
                    st8["back"] = _roundtrip(ctx, "op-dict-roundtrip", do, ops_equal(exp, "lib"), what)
                elif kind == "file":
                    exp = canon_op(op)
                    p = paths[step[1]]

                    def do():
                        save_operator(op, _target(rng, p))
                        written[p] = ("single", exp)
                        return _load(rng, load_operator, p)[0]
                    st8["back"] = _roundtrip(ctx, "op-file-roundtrip", do, ops_equal(exp, "lib"), what)
                    st8["source"] = ("file", p)
                elif kind == "set":
                    members = []
                    for tok in step[1]:
                        if tok == "op":
                            members.append(op)
                        elif tok == "copy":
                            members.append(PauliSum(list(op.terms)))
                        elif tok == "other":
                            members.append(other)
                        else:  # a sum sharing one term object with op
                            members.append(PauliSum([op.terms[int(tok[4:]) % nterms]]) if nterms else op)
                    exps = [canon_op(m) for m in members]
                    p = paths[step[2]]

                    def do():
                        save_operator_set(members, _target(rng, p))
                        written[p] = ("set", exps)
                        return _load(rng, load_operator_set, p)[0]
                    st8["back"] = _roundtrip(ctx, "op-set-roundtrip", do, set_equal(exps), what)
                    st8["source"] = ("file", p)
                elif kind == "text":
                    exp = canon_op(op)
                    name = "op-text-roundtrip-constant" if _has_constant(exp) else "op-text-roundtrip"

                    def do():
                        text = str(op) if step[1] == "str" else repr(op) if step[1] == "repr" else f"{op}"
                        return PauliTerm(text) if isinstance(op, PauliTerm) and step[2] else PauliSum(text)
                    _roundtrip(ctx, name, do, ops_equal(exp, "text"), what)
                elif kind == "coef":
                    if nterms:
                        op.terms[step[1] % nterms].coefficient = step[2]
                elif kind == "terms":
                    _how, inplace, ops, c = step[1:]
                    if isinstance(op, PauliTerm):
                        op.coefficient = c
                    elif _how == "append":
                        t = PauliTerm(dict(ops), c)
                        if inplace and isinstance(op.terms, list):
                            op.terms.append(t)
                        else:
                            op.terms = list(op.terms) + [t]
                    elif nterms:
                        i = len(ops) % nterms
                        if inplace and isinstance(op.terms, list):
                            del op.terms[i]
                        else:
                            op.terms = [t for j, t in enumerate(op.terms) if j != i]
                elif kind == "edit-dict":
                    d, d_exp = st8["d"], st8["d_exp"]
                    st8["d"] = None
                    if not isinstance(d, dict) or not isinstance(d.get("terms"), list):
                        continue
                    # the caller scribbles on the dictionary an earlier conversion returned
                    variant = None
                    try:
                        if step[1] == "negate":
                            for td in d["terms"]:
                                td["coefficient"]["real"] = -td["coefficient"]["real"]
                            variant = [(ops, complex(-c.real, c.imag)) for ops, c in d_exp]
                        elif step[1] == "shift":
                            for td in d["terms"]:
                                for po in td["pauli_ops"]:
                                    po["qubit"] += 4
                            variant = [(tuple((q + 4, o) for q, o in ops), c) for ops, c in d_exp]
                        elif step[1] == "strip":
                            for td in d["terms"]:
                                td["coefficient"].pop("imag", None)
                                td["pauli_ops"].clear()
                        else:
                            d["terms"].clear()
                    except (KeyError, TypeError, AttributeError):
                        variant = None  # not the documented dictionary shape: judged by the conversion checks
                    if variant is not None:
                        # the edited dictionary is itself a valid dictionary form: it denotes the edited operator
                        _roundtrip(ctx, "op-dict-roundtrip", lambda: convert_dict_to_op(json.loads(json.dumps(d))),
                                   ops_equal(variant, "lib"), what)
                elif kind == "loaded":
                    back, source = st8["back"], st8["source"]
                    st8["back"] = None
                    if back is None or source is None:
                        continue
                    # the caller modifies what an earlier load / conversion returned, then reads the same source again
                    for b in (back if isinstance(back, list) else [back]):
                        try:
                            for t in b.terms:
                                t.coefficient = 99
                            if isinstance(b.terms, list):
                                b.terms.clear()
                        except AttributeError:
                            pass
                    if isinstance(back, list):
                        back.clear()
                    if source[0] == "file":
                        read_again(source[1], what)
                    else:
                        _roundtrip(ctx, "op-dict-roundtrip", lambda: convert_dict_to_op(source[1]),
                                   ops_equal(source[2], "lib"), what)
                else:
                    raise ValueError(kind)
            last = st8["source"][1] if st8["source"] is not None and st8["source"][0] == "file" else None
            for p in sorted(written):  # every file still denotes what was written to it last
                if p != last or rng.random() < 0.25:
                    read_again(p, f"reading {os.path.basename(p)} again at the end of {spec_text(spec)}")
            return

        if cls == "artefact_history":
            kind = rng.choice(["measurements", "expvals", "expvals", "parities", "parities", "value_estimate", "layers",
                               "connectivity", "ordering", "list", "nmeas", "nmeas", "array", "array"])
            art = make_artefact(rng, kind, {
                "Measurements": Measurements, "ExpectationValues": ExpectationValues, "Parities": Parities,
                "save_expectation_values": save_expectation_values, "load_expectation_values": load_expectation_values,
                "save_parities": save_parities, "load_parities": load_parities, "U": U, "LY": LY,
                "rapidjson": rapidjson})
            nmut = rng.choice([1, 1, 2])
            chosen = [rng.randrange(len(art["muts"])) for _ in range(nmut)]
            same_path = [rng.random() < 0.6 for _ in range(nmut)]
            scribble = rng.random() < 0.4
            ctx.describe(f"artefact_history {kind} {art['desc']} changes {[art['muts'][i][0] for i in chosen]!r} "
                         f"same_path={same_path} scribble={scribble}"[:600], True)
            written = {}

            def observe(p, what):
                exp = art["cur"]()

                def do():
                    back = art["observe"](p)
                    if art["file"]:
                        written[p] = exp
                    return back

                def eq(b):
                    try:
                        got = art["canon"](b)
                    except Exception as e:
                        return f"loaded {b!r} ({e!r})"
                    return None if got == exp else f"loaded {got!r}"
                return _roundtrip(ctx, art["check"](), do, eq, f"{what}: {exp!r}"[:400])

            def read_again(p, what):
                exp = written[p]

                def eq(b):
                    try:
                        got = art["canon"](b)
                    except Exception as e:
                        return f"loaded {b!r} ({e!r})"
                    return None if got == exp else f"loaded {got!r}"
                return _roundtrip(ctx, art["check_for"](exp), lambda: art["load"](p), eq, f"{what}: {exp!r}"[:400])

            ctx.mon.note(f"artefact-history:{kind}")
            p = path
            back = observe(p, f"{kind} first")
            for i, same in zip(chosen, same_path):
                art["muts"][i][1]()
                p = p if same else (path2 if p == path else path)
                back = observe(p, f"{kind} after {art['muts'][i][0]}")
            if scribble and back is not None and art["file"]:
                try:
                    art["scribble"](back)
                except (AttributeError, TypeError, ValueError, IndexError):
                    pass
                read_again(p, f"{kind} read again after the loaded object was modified")
            for q in sorted(written):
                if q != p or (not scribble and rng.random() < 0.25):
                    read_again(q, f"{kind} reading {os.path.basename(q)} again at the end")
            return
        raise ValueError(cls)
    finally:
        for f in (path, path2):
            if os.path.exists(f):
                os.remove(f)


def finish(mon, res):
    global _TMP
    if _TMP and os.path.isdir(_TMP):
        shutil.rmtree(_TMP, ignore_errors=True)
        _TMP = None
