"""C20 - value-returning operations never modify their arguments."""
import io
import json
import math
import operator
import os
import shutil
import tempfile

import numpy as np
import sympy

from ..gen import circuits as GC
from ..ref import linalg as L
from ..snapshot import diff, is_value, snap

ID = "C20"
LEVEL = "exploration"
RULE = (
    "random histories of 40-120 (quick) / 100-300 (thorough) value-returning operations on a shared pool of "
    "~35 objects (numeric and symbolic circuits, gates, Pauli terms and sums, Ising operators, measurement "
    "sets, outcome distributions, wavefunctions, state vectors, symbol maps, operator dictionaries); operands "
    "are drawn with replacement so aliasing (the same object as both operands) occurs; results are fed back "
    "into the pool; every argument is snapshotted before and after each call by passive hooks, the WHOLE pool "
    "is compared after every step, and every operation is issued twice and the two results compared by "
    "snapshot. A history is non-trivial when it executed >= 20 distinct operation kinds incl. an aliased call; "
    "distinct = distinct (history class, seed, operation-kind multiset)"
)
ASSUMPTIONS = [
    "observable state = rv/snapshot.py (public attributes only; private caches such as PauliTerm._circuit, "
    "PauliSum._is_ising are ignored)",
    "operations that are documented mutators (Measurements.add_counts, Wavefunction.__setitem__) are not driven",
    "result equality is exact equality of snapshots within one process (same PYTHONHASHSEED)",
]
DECIDING = ["args-unchanged", "pool-unchanged", "same-result-twice"]
BUDGET = {"quick": (4, 25, 14), "thorough": (16, 200, 100000)}
CASE_TIMEOUT = {"quick": 40, "thorough": 120}
MIN_EVALS = {"quick": 6, "thorough": 40}

_TMP = None


from ..gen.scribble import scribble  # noqa: E402


def classes(tier):
    return ["mixed", "circuits", "operators", "measurements"]


# ----------------------------------------------------------------------------- passive hooks
def _pre_generic(mon, call):
    items = []
    for i, a in enumerate(call.args):
        if i == 0 and call.hook.endswith(".__init__"):
            continue  # the receiver does not exist yet
        if is_value(a):
            items.append((f"arg{i}", a, snap(a)))
    for k, a in call.kwargs.items():
        if is_value(a):
            items.append((k, a, snap(a)))
    return items


def _post_generic(mon, call):
    if not call.pre:
        mon.out_of_domain("args-unchanged")
        return
    bad = None
    for label, obj, before in call.pre:
        after = snap(obj)
        if after != before:
            bad = (label, obj, before, after)
            break
    if bad:
        label, obj, before, after = bad
        mon.violation(f"mutates-argument:{call.hook}",
                      f"{call.hook} changed its {label} ({type(obj).__name__}): " + "; ".join(diff(before, after))
                      + (f" [raised {call.exc!r}]" if call.exc is not None else ""))
    else:
        mon.ok("args-unchanged")
        mon.note("hook:" + call.hook)


HOOKS = None


def _hook_table():
    from orquestra.quantum import wavefunction as WF
    from orquestra.quantum.api import wavefunction_simulator as WS
    from orquestra.quantum.circuits import _circuit as C
    from orquestra.quantum.circuits import _gates as G
    from orquestra.quantum.circuits import _serde as S
    from orquestra.quantum.circuits import _wavefunction_operations as WO
    from orquestra.quantum.distributions import _measurement_outcome_distribution as D
    from orquestra.quantum.distributions import clipped_negative_log_likelihood as NLL
    from orquestra.quantum.distributions import jensen_shannon_divergence as JS
    from orquestra.quantum.distributions import mmd as MMD
    from orquestra.quantum.measurements import measurements as M
    from orquestra.quantum.measurements import parities as P
    from orquestra.quantum.operators import _io as IO
    from orquestra.quantum.operators import _pauli_operators as PO
    from orquestra.quantum.operators import _utils as OU
    from orquestra.quantum.operators._openfermion_utils import operator_utils as OPU
    from orquestra.quantum.operators._openfermion_utils import sparse_tools as ST

    methods = [
        (C.Circuit, ["__init__", "__add__", "bind", "inverse", "controlled", "to_unitary", "free_symbols", "__eq__",
                     "collect_custom_gate_definitions"]),
        (G.GateOperation, ["bind", "replace_params", "lifted_matrix", "apply", "free_symbols"]),
        (G.MatrixFactoryGate, ["matrix", "bind", "replace_params", "controlled", "dagger", "power", "exp", "__eq__"]),
        (G.ControlledGate, ["matrix", "bind", "replace_params", "controlled", "dagger", "power", "exp"]),
        (G.Dagger, ["matrix", "bind", "replace_params", "controlled", "dagger", "power", "exp"]),
        (G.Power, ["matrix", "replace_params", "controlled", "dagger", "power", "exp"]),
        (G.Exponential, ["matrix", "replace_params", "controlled", "dagger", "power", "exp"]),
        (WO.MultiPhaseOperation, ["bind", "replace_params", "apply"]),
        (WS.BaseWavefunctionSimulator, ["get_wavefunction", "get_exact_expectation_values",
                                        "get_measurement_outcome_distribution", "run_and_measure"]),
        (PO.PauliTerm, ["__add__", "__radd__", "__sub__", "__rsub__", "__mul__", "__rmul__", "__truediv__", "__pow__",
                        "__eq__", "__hash__", "__repr__", "copy", "circuit", "is_ising", "qubits", "operations",
                        "is_constant", "n_qubits"]),
        (PO.PauliSum, ["__init__", "__add__", "__radd__", "__sub__", "__rsub__", "__mul__", "__rmul__", "__truediv__", "__pow__",
                       "__eq__", "__hash__", "__repr__", "simplify", "circuits", "is_ising", "qubits", "is_constant",
                       "constant_term", "n_qubits"]),
        (M.Measurements, ["__init__", "get_counts", "get_distribution", "get_expectation_values", "save"]),
        (D.MeasurementOutcomeDistribution, ["__init__", "subdistribution", "get_number_of_subsystems", "__repr__"]),
        (WF.Wavefunction, ["__init__", "get_probabilities", "get_outcome_probs", "__len__", "__getitem__", "__eq__", "__str__",
                           "bind", "free_symbols", "n_qubits"]),
    ]
    funcs = [
        (S, ["to_dict", "save_circuit", "save_circuitset", "circuit_from_dict", "circuitset_from_dict"]),
        (IO, ["convert_op_to_dict", "convert_dict_to_op", "save_operator", "save_operator_set", "get_pauli_strings"]),
        (OPU, ["hermitian_conjugated", "is_hermitian"]),
        (ST, ["get_sparse_operator", "expectation"]),
        (OU, ["reverse_qubit_order", "get_expectation_value", "get_pauliop_from_matrix", "evaluate_operator"]),
        (P, ["get_parities_from_measurements", "check_parity", "check_parity_of_vector"]),
        (M, ["get_expectation_value_from_frequencies"]),
        (D, ["save_measurement_outcome_distribution", "save_measurement_outcome_distributions",
             "is_measurement_outcome_distribution", "is_normalized", "evaluate_distribution_distance"]),
        # normalize_measurement_outcome_distribution is NOT hooked: it normalises its argument in place by
        # design (tests/.../_measurement_outcome_distribution_test.py::TestNormalization pins that) and is not
        # one of the value-returning operations the property lists; the constructor hands it a private copy.
        (MMD, ["compute_mmd"]),
        (NLL, ["compute_clipped_negative_log_likelihood"]),
        (JS, ["compute_jensen_shannon_divergence"]),
        (WF, ["flip_wavefunction", "flip_amplitudes", "save_wavefunction", "sample_from_wavefunction"]),
    ]
    return methods, funcs


def install(mon, reach):
    methods, funcs = _hook_table()
    n = 0
    for cls, attrs in methods:
        for attr in attrs:
            found = any(attr in k.__dict__ for k in cls.__mro__)
            if not found:
                mon.note(f"missing-hook:{cls.__name__}.{attr}")
                continue
            mon.hook_method(cls, attr, post=_post_generic, pre=_pre_generic, name=f"{cls.__name__}.{attr}")
            n += 1
    for mod, attrs in funcs:
        for attr in attrs:
            if not hasattr(mod, attr):
                mon.note(f"missing-hook:{mod.__name__}.{attr}")
                continue
            mon.hook_func(mod, attr, post=_post_generic, pre=_pre_generic)
            n += 1
    mon.notes["hooks-installed"] = n
    mon.max_depth = 3
    from orquestra.quantum.circuits import _circuit as C
    from orquestra.quantum.distributions import _measurement_outcome_distribution as D
    from orquestra.quantum.operators import _pauli_operators as PO

    reach.watch(getattr(C.Circuit, "__init__", None), "Circuit.__init__")
    reach.watch(getattr(C, "_append_circuit", None), "_append_circuit")
    reach.watch(getattr(C, "_append_operation", None), "_append_operation")
    reach.watch(PO.PauliTerm.copy, "PauliTerm.copy")
    reach.watch(PO.PauliSum.simplify, "PauliSum.simplify")
    reach.watch(D.MeasurementOutcomeDistribution.subdistribution, "MOD.subdistribution")


# ----------------------------------------------------------------------------- pool
def _rand_term(rng, ising=False, maxq=4):
    from orquestra.quantum.operators import PauliTerm

    k = rng.randint(0, 3)
    qs = rng.sample(range(maxq), k)
    ops = {q: ("Z" if ising else rng.choice("XYZ")) for q in qs}
    c = rng.choice([1.0, -0.5, 2, 0.25, 1.5 - 0.5j if not ising else 0.75, rng.uniform(-2, 2)])
    return PauliTerm(ops, c)


def _rand_sum(rng, ising=False, maxq=4):
    from orquestra.quantum.operators import PauliSum

    return PauliSum([_rand_term(rng, ising, maxq) for _ in range(rng.randint(0, 4))])


def build_pool(rng, nprng, focus):
    from orquestra.quantum.circuits import Circuit
    from orquestra.quantum.distributions import MeasurementOutcomeDistribution
    from orquestra.quantum.measurements import Measurements
    from orquestra.quantum.wavefunction import Wavefunction

    pool = {k: [] for k in ("circ", "pcirc", "scirc", "gate", "term", "sum", "ising", "meas", "dist", "wf", "state", "map",
                            "opdict")}
    syms = [sympy.Symbol(s) for s in ("theta", "phi", "alpha")]
    for _ in range(5):
        n = rng.randint(1, 3)
        c, _d, _i = GC.rand_circuit(rng, nprng, n, rng.randint(0, 5), allow_u3=False, wrap=0.3, custom=0.1)
        pool["circ"].append(c)
    pool["circ"].append(Circuit())
    # circuits with phase-only (non-gate) operations, also in FIRST position: the first operation of a circuit
    # is the only one that sees the caller's own initial-state array
    from orquestra.quantum.circuits import MultiPhaseOperation

    for first in (True, False):
        n = rng.randint(1, 3)
        c, _d, _i = GC.rand_circuit(rng, nprng, n, rng.randint(1, 3), allow_u3=False, wrap=0.2, custom=0,
                                    n_qubits_explicit=True)
        mp = MultiPhaseOperation(tuple(round(rng.uniform(-3, 3), 4) for _ in range(2**n)))
        ops = list(c.operations)
        ops.insert(0 if first else rng.randint(1, len(ops)), mp)
        pool["pcirc"].append(Circuit(ops, n_qubits=n))
    for _ in range(3):
        n = rng.randint(1, 3)
        c, _d, _i = GC.rand_circuit(rng, nprng, n, rng.randint(1, 4), symbolic=True, symbols=syms, allow_u3=False,
                                    max_gate_nq=2, custom=0.1)
        pool["scirc"].append(c)
    for _ in range(4):
        g, _d = GC.rand_gate(rng, nprng, 2, allow_u3=False)
        pool["gate"].append(g)
    g, _d = GC.rand_base_gate(rng, nprng, 2, symbolic=True, symbols=syms, custom=0, allow_u3=False)
    pool["gate"].append(g)
    for _ in range(4):
        pool["term"].append(_rand_term(rng))
        pool["sum"].append(_rand_sum(rng))
    for _ in range(3):
        pool["ising"].append(_rand_sum(rng, ising=True) if rng.random() < 0.7 else _rand_term(rng, ising=True))
    for _ in range(3):
        n = rng.randint(1, 4)
        shots = [tuple(rng.randint(0, 1) for _ in range(n)) for _ in range(rng.randint(1, 30))]
        pool["meas"].append(Measurements(shots))
    for _ in range(3):
        n = rng.randint(1, 3)
        keys = list({tuple(rng.randint(0, 1) for _ in range(n)) for _ in range(rng.randint(1, 6))})
        pool["dist"].append(MeasurementOutcomeDistribution({k: rng.random() + 0.01 for k in keys}))
    for n in (1, 2, 3, 4):
        v = L.random_state(nprng, 2**n)
        pool["state"].append(v)
        pool["wf"].append(Wavefunction(L.random_state(nprng, 2**n)))
    pool["map"].append({syms[0]: 0.3, syms[1]: -1.2, syms[2]: 2.0})
    pool["map"].append({syms[0]: 0.5})
    pool["map"].append({})
    pool["map"].append({syms[0]: syms[1], syms[1]: 1.0})
    # maps of other dict kinds: some ANSWER for symbols they do not list (and a defaultdict starts listing whatever it
    # is asked for with []): what the map lists is part of the caller's state like everything else
    import collections

    class _ZeroForMissing(dict):
        def __missing__(self, key):
            return 0.0

    pool["map"].append(collections.defaultdict(float, {syms[0]: 0.5}))
    pool["map"].append(collections.defaultdict(lambda: 1.0))
    pool["map"].append(_ZeroForMissing({syms[1]: -0.75}))
    pool["map"].append(collections.OrderedDict([(syms[2], 0.25), (syms[0], 2)]))
    from orquestra.quantum.operators import convert_op_to_dict

    pool["opdict"].append(convert_op_to_dict(_rand_sum(rng)))
    return pool


def pool_snapshot(pool):
    return {(k, i): snap(o) for k, objs in pool.items() for i, o in enumerate(objs)}


# ----------------------------------------------------------------------------- operations
def _subdistribution(r, d):
    """marginal on a selector that the CALLER keeps: a list (sometimes with negative, i.e. from-the-end, positions, which
    plain indexing accepts) that must read the same after the call"""
    n = d.get_number_of_subsystems()
    sel = r.sample(range(n), r.randint(1, n))
    if r.random() < 0.4:
        sel = [q - n if r.random() < 0.6 else q for q in sel]
    return d.subdistribution(sel)  # the argument snapshot of the hook covers the selector


def catalogue():
    """name -> (operand kinds, function(rng, *operands) -> result, result kind or None)"""
    from orquestra.quantum import wavefunction as WF
    from orquestra.quantum.circuits import circuit_from_dict, save_circuit, to_dict
    from orquestra.quantum.distributions import (
        compute_clipped_negative_log_likelihood,
        compute_jensen_shannon_divergence,
        compute_mmd,
        save_measurement_outcome_distribution,
    )
    from orquestra.quantum.measurements import get_parities_from_measurements
    from orquestra.quantum.operators import (
        convert_dict_to_op,
        convert_op_to_dict,
        get_expectation_value,
        get_sparse_operator,
        hermitian_conjugated,
        is_hermitian,
        reverse_qubit_order,
        save_operator,
    )
    from orquestra.quantum.runners.symbolic_simulator import SymbolicSimulator

    def tmpfile(tag):
        return os.path.join(_TMP, f"{tag}.json")

    def save_circ(rng, c):
        buf = io.StringIO()
        save_circuit(c, buf)
        return buf.getvalue()

    def sim_wf(rng, c, states):
        return SymbolicSimulator().get_wavefunction(c, states) if states is not None and len(states) == 2**c.n_qubits \
            else SymbolicSimulator().get_wavefunction(c)

    def apply_ops(rng, c, v):
        if len(v) != 2**c.n_qubits:
            raise ValueError("size")
        w = v
        for op in c.operations:
            w = op.apply(w)
        return w

    def save_op(rng, o):
        p = tmpfile("op")
        save_operator(o, p)
        return open(p).read()

    def save_meas(rng, m):
        p = tmpfile("meas")
        m.save(p)
        return open(p).read()

    def save_dist(rng, d):
        p = tmpfile("dist")
        save_measurement_outcome_distribution(d, p)
        return open(p).read()

    def expval(rng, o, wf):
        return get_expectation_value(o, wf)

    cat = {
        "circuit+circuit": (["circ", "circ"], lambda r, a, b: a + b, "circ"),
        "circuit+operation": (["circ", "circ"], lambda r, a, b: a + b.operations[0], "circ"),
        "scircuit+circuit": (["scirc", "circ"], lambda r, a, b: a + b, None),
        "circuit.bind": (["scirc", "map"], lambda r, c, m: c.bind(m), None),
        "circuit.bind-numeric": (["circ", "map"], lambda r, c, m: c.bind(m), "circ"),
        "circuit.inverse": (["circ"], lambda r, c: c.inverse(), "circ"),
        "scircuit.inverse": (["scirc"], lambda r, c: c.inverse(), "scirc"),
        "circuit.controlled": (["circ"], lambda r, c: c.controlled(r.randint(0, max(0, c.n_qubits))), None),
        "to_dict": (["circ"], lambda r, c: to_dict(c), None),
        "to_dict-symbolic": (["scirc"], lambda r, c: to_dict(c), None),
        "json-roundtrip": (["circ"], lambda r, c: circuit_from_dict(json.loads(json.dumps(to_dict(c)))), None),
        "save_circuit": (["circ"], save_circ, None),
        "to_unitary": (["circ"], lambda r, c: c.to_unitary(), None),
        "free_symbols": (["scirc"], lambda r, c: c.free_symbols, None),
        "circuit==": (["circ", "circ"], lambda r, a, b: a == b, None),
        "collect_custom_gate_definitions": (["circ"], lambda r, c: c.collect_custom_gate_definitions(), None),
        "sim.get_wavefunction": (["circ", "state"], sim_wf, None),
        "sim.exact_expectation": (["circ", "sum"], lambda r, c, o: SymbolicSimulator().get_exact_expectation_values(c, o), None),
        "sim.run_and_measure": (["circ"], lambda r, c: SymbolicSimulator(seed=7).run_and_measure(c, 20), "meas"),
        "sim.distribution": (["circ"], lambda r, c: SymbolicSimulator(seed=7).get_measurement_outcome_distribution(c), None),
        "stepwise-apply": (["circ", "state"], apply_ops, None),
        "sim.get_wavefunction(phase-circuit)": (["pcirc", "state"], sim_wf, None),
        "sim.get_wavefunction(phase-circuit, wf.amplitudes)": (["pcirc", "wf"], lambda r, c, w: sim_wf(r, c, w.amplitudes), None),
        "stepwise-apply(phase-circuit)": (["pcirc", "state"], apply_ops, None),
        "first-operation.apply": (["pcirc", "state"], lambda r, c, v: c.operations[0].apply(v), None),
        "phase-circuit.bind": (["pcirc", "map"], lambda r, c, m: c.bind(m), None),
        "gate.matrix": (["gate"], lambda r, g: g.matrix, None),
        "gate.dagger": (["gate"], lambda r, g: g.dagger, "gate"),
        "gate.controlled": (["gate"], lambda r, g: g.controlled(1), None),
        "gate.bind": (["gate", "map"], lambda r, g, m: g.bind(m), None),
        "gate.replace_params": (["gate"], lambda r, g: g.replace_params(tuple(0.5 for _ in g.params)), None),
        "gate==": (["gate", "gate"], lambda r, a, b: a == b, None),
        "term+term": (["term", "term"], lambda r, a, b: a + b, "sum"),
        "term-term": (["term", "term"], lambda r, a, b: a - b, "sum"),
        "term*term": (["term", "term"], lambda r, a, b: a * b, "term"),
        "term*scalar": (["term"], lambda r, a: a * r.choice([2, -0.5, 1j]), "term"),
        "scalar*term": (["term"], lambda r, a: r.choice([2, -0.5, 1j]) * a, "term"),
        "term/scalar": (["term"], lambda r, a: a / 2.0, "term"),
        "term**k": (["term"], lambda r, a: a ** r.randint(0, 4), None),
        "scalar+term": (["term"], lambda r, a: 1.5 + a, "sum"),
        "scalar-term": (["term"], lambda r, a: 1.5 - a, "sum"),
        "term.copy": (["term"], lambda r, a: a.copy(), "term"),
        "term.circuit": (["term"], lambda r, a: a.circuit, None),
        "sum+sum": (["sum", "sum"], lambda r, a, b: a + b, "sum"),
        "sum+term": (["sum", "term"], lambda r, a, b: a + b, "sum"),
        "term+sum": (["term", "sum"], lambda r, a, b: a + b, "sum"),
        "sum-sum": (["sum", "sum"], lambda r, a, b: a - b, "sum"),
        # the augmented spellings of the same operations: `x += y` on a name bound to a shared object is "adding"
        # too, and every other name bound to that object must still see the old value
        "sum+=sum": (["sum", "sum"], lambda r, a, b: operator.iadd(a, b), "sum"),
        "sum+=term": (["sum", "term"], lambda r, a, b: operator.iadd(a, b), "sum"),
        "sum+=scalar": (["sum"], lambda r, a: operator.iadd(a, r.choice([2, -0.5, 1j])), "sum"),
        "sum-=term": (["sum", "term"], lambda r, a, b: operator.isub(a, b), "sum"),
        "sum-=sum": (["sum", "sum"], lambda r, a, b: operator.isub(a, b), "sum"),
        "sum*=scalar": (["sum"], lambda r, a: operator.imul(a, r.choice([2, -0.5, 1j])), "sum"),
        "sum*=sum": (["sum", "sum"], lambda r, a, b: operator.imul(a, b), "sum"),
        "sum*=term": (["sum", "term"], lambda r, a, b: operator.imul(a, b), "sum"),
        "sum/=scalar": (["sum"], lambda r, a: operator.itruediv(a, 4.0), "sum"),
        "sum**=k": (["sum"], lambda r, a: operator.ipow(a, r.randint(0, 3)), None),
        "term+=term": (["term", "term"], lambda r, a, b: operator.iadd(a, b), "sum"),
        "term-=term": (["term", "term"], lambda r, a, b: operator.isub(a, b), "sum"),
        "term*=term": (["term", "term"], lambda r, a, b: operator.imul(a, b), "term"),
        "term*=scalar": (["term"], lambda r, a: operator.imul(a, r.choice([2, -0.5, 1j])), "term"),
        "term/=scalar": (["term"], lambda r, a: operator.itruediv(a, 2.0), "term"),
        "term**=k": (["term"], lambda r, a: operator.ipow(a, r.randint(0, 4)), None),
        "circuit+=circuit": (["circ", "circ"], lambda r, a, b: operator.iadd(a, b), "circ"),
        "circuit+=operation": (["circ", "circ"], lambda r, a, b: operator.iadd(a, b.operations[0]), "circ"),
        "sum*sum": (["sum", "sum"], lambda r, a, b: a * b, "sum"),
        "sum*term": (["sum", "term"], lambda r, a, b: a * b, "sum"),
        "term*sum": (["term", "sum"], lambda r, a, b: a * b, "sum"),
        "sum*scalar": (["sum"], lambda r, a: a * r.choice([2, -0.5, 1j]), "sum"),
        "scalar*sum": (["sum"], lambda r, a: r.choice([2, -0.5, 1j]) * a, "sum"),
        "sum/scalar": (["sum"], lambda r, a: a / 4.0, "sum"),
        "sum**k": (["sum"], lambda r, a: a ** r.randint(0, 3), None),
        "scalar+sum": (["sum"], lambda r, a: 2 + a, "sum"),
        "scalar-sum": (["sum"], lambda r, a: 2 - a, "sum"),
        "sum.simplify": (["sum"], lambda r, a: a.simplify(), "sum"),
        "sum==": (["sum", "sum"], lambda r, a, b: a == b, None),
        "sum==term": (["sum", "term"], lambda r, a, b: a == b, None),
        "hash(term)": (["term"], lambda r, a: hash(a), None),
        "hash(sum)": (["sum"], lambda r, a: hash(a), None),
        "repr(sum)": (["sum"], lambda r, a: repr(a), None),
        "repr(term)": (["term"], lambda r, a: repr(a), None),
        "hermitian_conjugated(sum)": (["sum"], lambda r, a: hermitian_conjugated(a), "sum"),
        "hermitian_conjugated(term)": (["term"], lambda r, a: hermitian_conjugated(a), None),
        "is_hermitian": (["sum"], lambda r, a: is_hermitian(a), None),
        "convert_op_to_dict": (["sum"], lambda r, a: convert_op_to_dict(a), "opdict"),
        "convert_op_to_dict(term)": (["term"], lambda r, a: convert_op_to_dict(a), None),
        "convert_dict_to_op": (["opdict"], lambda r, d: convert_dict_to_op(d), "sum"),
        "save_operator": (["sum"], save_op, None),
        "get_sparse_operator": (["sum"], lambda r, a: get_sparse_operator(a, 4), None),
        "get_sparse_operator(term)": (["term"], lambda r, a: get_sparse_operator(a, 4), None),
        "reverse_qubit_order": (["sum"], lambda r, a: reverse_qubit_order(a, 4), "sum"),
        "get_expectation_value": (["sum", "wf"], expval, None),
        "sum.circuits": (["sum"], lambda r, a: a.circuits, None),
        "sum.is_ising": (["sum"], lambda r, a: a.is_ising, None),
        "meas.get_counts": (["meas"], lambda r, m: m.get_counts(), None),
        "meas.get_distribution": (["meas"], lambda r, m: m.get_distribution(), "dist"),
        "meas.get_expectation_values": (["meas", "ising"], lambda r, m, o: m.get_expectation_values(o, r.random() < 0.5), None),
        "get_parities_from_measurements": (["meas", "ising"], lambda r, m, o: get_parities_from_measurements(m, o), None),
        "meas.save": (["meas"], save_meas, None),
        "dist.subdistribution": (["dist"], lambda r, d: _subdistribution(r, d), "dist"),
        "compute_mmd": (["dist", "dist"], lambda r, a, b: compute_mmd(a, b, {"sigma": 1.0}), None),
        "clipped_nll": (["dist", "dist"], lambda r, a, b: compute_clipped_negative_log_likelihood(a, b, {"epsilon": 1e-6}), None),
        "jsd": (["dist", "dist"], lambda r, a, b: compute_jensen_shannon_divergence(a, b, {"epsilon": 1e-6}), None),
        "evaluate_distribution_distance": (["dist", "dist"], lambda r, a, b: _compare(r, a, b), None),
        "dist.save": (["dist"], save_dist, None),
        "wf.get_probabilities": (["wf"], lambda r, w: w.get_probabilities(), None),
        "wf.get_outcome_probs": (["wf"], lambda r, w: w.get_outcome_probs(), None),
        "flip_wavefunction": (["wf"], lambda r, w: WF.flip_wavefunction(w), "wf"),
        "sample_from_wavefunction": (["wf"], lambda r, w: WF.sample_from_wavefunction(w, 10, 3), None),
        "wf==": (["wf", "wf"], lambda r, a, b: a == b, None),
    }
    return cat


class _MeasureFailed(Exception):
    pass


def _compare(rng, a, b):
    """evaluate_distribution_distance with a measure that succeeds or RAISES (a zero bandwidth, a non-positive clipping
    constant, a caller's own function that gives up): comparing leaves both distributions as they were either way"""
    from orquestra.quantum.distributions import (
        compute_clipped_negative_log_likelihood,
        compute_jensen_shannon_divergence,
        compute_mmd,
        evaluate_distribution_distance,
    )

    def own(target, measured, parameters):
        if parameters.get("fail"):
            raise _MeasureFailed("measure gave up")
        keys = set(target.distribution_dict) | set(measured.distribution_dict)
        return sum(abs(target.distribution_dict.get(k, 0) - measured.distribution_dict.get(k, 0)) for k in sorted(keys))

    how = rng.choice(["mmd", "nll", "jsd", "own", "mmd-sigma-0", "nll-epsilon-0", "own-raises", "own-raises"])
    if how == "mmd":
        return evaluate_distribution_distance(a, b, compute_mmd, distance_measure_parameters={"sigma": 0.7})
    if how == "nll":
        return evaluate_distribution_distance(a, b, compute_clipped_negative_log_likelihood, distance_measure_parameters={"epsilon": 1e-6})
    if how == "jsd":
        return evaluate_distribution_distance(a, b, compute_jensen_shannon_divergence, distance_measure_parameters={"epsilon": 1e-6})
    if how == "own":
        return evaluate_distribution_distance(a, b, own, distance_measure_parameters={})
    if how == "mmd-sigma-0":
        return evaluate_distribution_distance(a, b, compute_mmd, distance_measure_parameters={"sigma": 0})
    if how == "nll-epsilon-0":
        return evaluate_distribution_distance(a, b, compute_clipped_negative_log_likelihood, distance_measure_parameters={"epsilon": 0})
    return evaluate_distribution_distance(a, b, own, distance_measure_parameters={"fail": True})


FOCUS = {
    "mixed": None,
    "circuits": ("circuit", "scircuit", "to_dict", "json", "save_circuit", "to_unitary", "free_symbols", "sim.",
                 "stepwise", "gate", "collect", "first-operation", "phase-circuit"),
    "operators": ("term", "sum", "scalar", "hash", "repr", "hermitian", "convert", "save_operator", "get_sparse",
                  "reverse", "get_expectation_value", "is_hermitian"),
    "measurements": ("meas", "dist", "get_parities", "compute_mmd", "clipped", "jsd", "wf", "flip", "sample", "evaluate_distribution"),
}


# operations whose result is documented to be an alias of state kept by the receiver (PauliTerm.circuit: "for
# efficiency constructed circuit is cached after the first invocation"; PauliSum.circuits collects those): a
# caller that edits such a result edits the receiver's cache by design, which the property does not rule out
ALIAS_BY_DESIGN = {"sum.circuits", "term.circuit"}


def _pool_ids(pool):
    """ids of the pool objects and of their public containers (never to be touched by scribble)"""
    from ..gen.scribble import _lib_containers

    ids = set()
    for objs in pool.values():
        for o in objs:
            ids.add(id(o))
            for c in _lib_containers(o):
                ids.add(id(c))
    return ids


def run_case(ctx):
    global _TMP
    rng, nprng = ctx.rng, ctx.nprng
    if _TMP is None:
        _TMP = tempfile.mkdtemp(prefix="rv-c20-")
    cat = catalogue()
    focus = FOCUS[ctx.cls]
    names = sorted(n for n in cat if focus is None or n.startswith(focus))
    steps = rng.randint(40, 120) if ctx.quick else rng.randint(100, 300)
    pool = build_pool(rng, nprng, focus)
    before = pool_snapshot(pool)
    kinds_done = set()
    aliased = 0
    raised = 0
    scribbled = 0
    scribble_on = ctx.index % 2 == 1  # every other history: results of the first call are modified in place
    mon = ctx.mon
    ctx.describe(f"{ctx.cls} history seed-index={ctx.index} steps={steps}", True)
    for step in range(steps):
        name = rng.choice(names)
        kinds, fn, rkind = cat[name]
        if any(not pool[k] for k in kinds):
            continue
        operands = [rng.choice(pool[k]) for k in kinds]
        if kinds[-1] in ("state", "wf") and kinds[0] in ("circ", "pcirc") and len(kinds) == 2:
            c = operands[0]
            match = [s for s in pool[kinds[-1]] if len(s) == 2**c.n_qubits]
            if match:
                operands[1] = rng.choice(match)
            elif name == "sim.get_wavefunction":
                operands[1] = None
        if len(operands) == 2 and operands[0] is operands[1]:
            aliased += 1
        st = rng.getstate()
        results = []
        s1 = None
        scribbled_now = 0
        for rep in range(2):
            rng.setstate(st)
            try:
                results.append(("ok", fn(rng, *operands)))
            except Exception as e:  # an operation may legitimately refuse its operands
                results.append(("exc", type(e).__name__))
            if rep == 0 and results[0][0] == "ok":
                s1 = snap(results[0][1])
                if scribble_on and name not in ALIAS_BY_DESIGN:
                    # the caller owns what the operation returned: modify it in place (containers only, nothing
                    # that IS a pool object or one of its public containers) before asking again
                    scribbled_now = scribble(results[0][1], seen=_pool_ids(pool))
                    scribbled += scribbled_now
        kinds_done.add(name)
        if results[0][0] == "exc":
            raised += 1
        # same operation twice -> equal results
        if results[0][0] == "ok" and results[1][0] == "ok":
            s2 = snap(results[1][1])
            ctx.check("same-result-twice", s1 == s2,
                      lambda: f"{name} on the same arguments gave different results: " + "; ".join(diff(s1, s2)))
        elif results[0][0] != results[1][0] or results[0][1] != results[1][1]:
            ctx.check("same-result-twice", False, f"{name}: first call {results[0]}, second call {results[1]}")
        # the whole pool must be as it was
        after = pool_snapshot(pool)
        if after != before:
            changed = [k for k in before if after.get(k) != before[k]]
            k0 = changed[0]
            ctx.check("pool-unchanged", False,
                      f"step {step}: {name}({', '.join(type(o).__name__ for o in operands)}) changed pool object {k0}: "
                      + "; ".join(diff(before[k0], after[k0])))
            before = after  # report each change once
        else:
            mon.checks["pool-unchanged"] += 1
        # feed the result back
        if rkind and results[0][0] == "ok" and results[1][0] == "ok" and rng.random() < 0.35:
            r = results[1][1] if scribbled_now else results[0][1]
            ok = True
            if rkind in ("circ", "scirc"):
                ok = getattr(r, "n_qubits", 9) <= 4 and len(r.operations) <= 14
            if rkind == "sum":
                ok = len(r.terms) <= 12
            if ok:
                slot = rng.randrange(len(pool[rkind]))
                pool[rkind][slot] = r
                before = pool_snapshot(pool)
    mon.note("steps", steps)
    mon.note("aliased-calls", aliased)
    mon.note("result-containers-modified-between-the-two-calls", scribbled)
    mon.note("refused-calls", raised)
    for k in kinds_done:
        mon.note("op:" + k)
    ctx.describe(f"{ctx.cls} history index={ctx.index} steps={steps} kinds={len(kinds_done)} aliased={aliased} "
                 f"refused={raised} ops={sorted(kinds_done)[:6]}...", len(kinds_done) >= 20 and aliased >= 1)


def finish(mon, res):
    global _TMP
    if _TMP and os.path.isdir(_TMP):
        shutil.rmtree(_TMP, ignore_errors=True)
        _TMP = None
