"""C12 - a wavefunction object is normalised after every operation on it."""
import cmath
import io
import json
import math
import os
import tempfile

import numpy as np
import sympy

from ..core import Exhausted
from ..ref import linalg as L

ID = "C12"
LEVEL = "exploration"
RULE = (
    "seeded histories of 5-40 planned steps (single-index / negative-index / slice / fancy / tuple "
    "assignments, number<->symbol replacements, partial / total / invalid / no-op bindings, interleaved "
    "with probabilities, flips and iteration) on numeric, column-shaped, symbolic and mixed wavefunctions "
    "of 0-4 qubits, every step planned against a shadow model that predicts accept/reject; plus "
    "constructor inputs (lengths 0-1024, normalised / unnormalised / tolerance-boundary / symbolic), all "
    "Dicke states n<=10 and invalid arguments, flips n<=10, save/load, simulator-made wavefunctions; plus "
    "histories over up to 5 RELATED objects of 0-5 qubits (built from another one's amplitudes / slice / the "
    "array the caller still holds / a copy / the object itself / a flip / a binding), legal and illegal "
    "assignments through any of them (int, negative, slice, stepped-slice, list and array indices), every "
    "object's probabilities (array and per-outcome), amplitudes and normalisation re-read after every step, "
    "returned arrays / dicts overwritten by the caller in between; plus histories over FACTORY results "
    "(hist_factory): dicke_state(n<=10, k), zero_state(n) next to dicke_state(n, 0), load_wavefunction of a file "
    "written by hand or by save_wavefunction (path / handle / text), bind(map) on a symbolic object (total and "
    "partial maps, also a second map for the same symbols), flip_wavefunction(w), Wavefunction(list / tuple), "
    "Wavefunction(w.amplitudes), Wavefunction(w) (0-7 qubits) - each asked 2-8 times with equal arguments "
    "inside one case, "
    "optionally next to a neighbour request a coarse memo key could confuse it with, while the objects handed "
    "out (and the objects read from) are modified in between through wf[idx] = value: norm-preserving "
    "assignments (support entry exchanged with a non-support entry, weight moved or rotated between two entries, "
    "single phase, all phases, whole new unit vector) and refused ones, spelled with int / negative / numpy-int / "
    "tuple / slice / stepped and negative slice / index list / index array / Ellipsis indices; results dropped "
    "and files rewritten from their edited source in between; nothing is undone at the end of a case, so later "
    "cases of the same process meet whatever module-level state a case left behind. "
    "Non-trivial = history whose plan contains >=1 step predicted rejected and >=1 mutation predicted "
    "accepted (hist_factory: >=1 refused assignment and >=1 norm-preserving assignment followed by a new request "
    "to the same factory); distinct = distinct canonical plan strings"
)
ASSUMPTIONS = [
    "invariant as stated by the property: power-of-two length and, for symbol-free entries, sum|a|^2 within "
    "the library's np.isclose(.,1) band (1e-8+1e-5); with symbolic entries present the numeric entries' sum "
    "must not exceed 1; sums inside 0.1% of the band edge (numeric) or within 1e-9 of 1 (symbolic) get no verdict",
    "the expected post-state of an accepted assignment is the same assignment performed on an independent "
    "numpy / sympy copy of the pre-state (container indexing semantics are trusted, the check+rollback "
    "logic is what is judged)",
    "rejecting a step that would have kept the invariant is tallied (observed: rejected-valid) but is not a "
    "violation - the property only demands that breaking steps are refused and leave no trace",
    "NaN amplitudes in a symbolic vector and direct writes by the caller into an array it shares with a "
    "wavefunction are outside the workload",
    "wavefunctions may share storage with one another (Wavefunction(other.amplitudes) keeps the array): whether "
    "two objects share storage is observed (numpy.may_share_memory on the stores), never demanded either way; of "
    "each object only normalisation and probabilities = |its current amplitudes|^2 are demanded, an object "
    "sharing nothing with the target of an assignment must come out unchanged, and after a refused assignment "
    "every object must",
    "factory results (hist_factory): every answer of dicke_state / load_wavefunction / bind / flip_wavefunction / "
    "Wavefunction(sequence) must be what the property says about that request given what its arguments hold NOW "
    "(Dicke: the probabilities, phases are not demanded here; load: the numbers in the file; bind: the "
    "substitution; flip: the bit reversal of the argument's current amplitudes), whatever was done to earlier "
    "answers; zero_state is not named by the property and only has to be normalised - it is asked because "
    "dicke_state(n, 0) is built from it. An accepted assignment to one object must leave every other object of "
    "the case bit-identical, except where storage came in through the argument of the request and may therefore "
    "legitimately be shared: Wavefunction(w.amplitudes) / Wavefunction(w) with w and with one another, a flip with "
    "its source (observed with numpy.may_share_memory, never demanded); two answers of dicke_state, zero_state, "
    "load_wavefunction, bind or Wavefunction(list / tuple) have no such argument, so one changing with the other "
    "is a violation (an object nobody operated on stopped being the state it was constructed as)",
    "per-outcome probabilities: the labelling of basis states is not part of the property; the values must be the "
    "squared magnitudes under little-endian labels, big-endian labels or dictionary order",
]
DECIDING = [
    "Wavefunction.__init__", "setitem:accepted", "setitem:rejected", "bind:accepted", "bind:rejected",
    "Wavefunction.get_probabilities", "Wavefunction.dicke_state", "flip_amplitudes", "flip_wavefunction",
    "history-shadow", "flip-involution", "save-load", "ctor-accepts-valid",
    "Wavefunction.get_outcome_probs", "related-invariant", "related-bystander", "factory-fresh", "factory-bystander",
]
BRANCHES = [
    "Wavefunction.__setitem__:rollback", "Wavefunction._check_normalization:numeric-reject",
    "Wavefunction._check_normalization:symbolic-check", "Wavefunction.bind:rejected",
    "Wavefunction.dicke_state:enumerate",
]
EXHAUSTIVE = {"dicke": "all (n, k) with 1 <= n <= 10, 0 <= k <= n"}
BUDGET = {"quick": (4, 40, 420), "thorough": (16, 150, 100000)}

ISCLOSE_BAND = 1e-8 + 1e-5  # np.isclose(x, 1.0): |x-1| <= atol + rtol*1
_TMP = None


def classes(tier):
    return ["hist_numeric", "hist_symbolic", "hist_mixed", "hist_column", "hist_related", "hist_factory", "ctor",
            "dicke", "dicke_invalid", "flip", "saveload", "simulator"]


# ----------------------------------------------------------------------------- model helpers
def _is_num(e):
    """entry without free symbols that has a complex value"""
    if isinstance(e, (bool, np.bool_)):
        return True
    if isinstance(e, (int, float, complex, np.number)):
        return True
    if isinstance(e, sympy.Basic):
        if e.free_symbols:
            return False
        try:
            complex(e)
            return True
        except Exception:
            return False
    return False


def _c(e):
    return complex(e)


def judge(entries):
    """'ok' | 'bad' | 'grey' for the invariant stated by the property."""
    n = len(entries)
    if n < 1 or n & (n - 1):
        return "bad"
    nums = [_c(e) for e in entries if _is_num(e)]
    s = math.fsum(z.real * z.real + z.imag * z.imag for z in nums) if nums else 0.0
    if len(nums) == n:
        if not math.isfinite(s):
            return "bad"
        dev = abs(s - 1.0)
        if dev <= ISCLOSE_BAND * (1 - 1e-3):
            return "ok"
        if dev >= ISCLOSE_BAND * (1 + 1e-3):
            return "bad"
        return "grey"
    if not math.isfinite(s):
        return "grey" if math.isnan(s) else "bad"
    if s > 1.0 + 1e-9:
        return "bad"
    if s < 1.0 - 1e-9:
        return "ok"
    return "grey"


def _store(wf):
    """The object's amplitude container: the instance attribute named by the property's anchor where the class
    keeps one, otherwise (another internal representation: slots, split numeric / symbolic fields) what the public
    ``wf[:]`` hands out - same shape, same entries, and for numpy storage a view of the same memory (a sympy matrix
    answers a single slice with the flat list of its entries and ``[:, :]`` with a matrix of its own shape)."""
    d = getattr(wf, "__dict__", None)
    if d is not None and "_amplitude_vector" in d:
        return d["_amplitude_vector"]
    try:
        v = wf[:]
        if isinstance(v, list):
            try:
                m = wf[:, :]
            except Exception:
                m = None
            v = m if isinstance(m, sympy.MatrixBase) else sympy.Matrix(v)
        return v
    except Exception:
        return None


def snap(wf):
    """(kind, shape, entries, raw) of the object's amplitude store, or None"""
    v = _store(wf)
    if isinstance(v, np.ndarray):
        if v.dtype.kind not in "cfiub":
            return None
        flat = v.flatten()
        return ("nd", tuple(v.shape), [complex(x) for x in flat], flat.astype(complex).tobytes())
    if isinstance(v, sympy.MatrixBase):
        ent = list(v)
        return ("mat", tuple(v.shape), ent, None)
    return None


def same_snap(a, b):
    if a is None or b is None:
        return a is b
    if a[0] != b[0] or a[1] != b[1]:
        return False
    if a[0] == "nd":
        return a[3] == b[3]
    return a[2] == b[2]


_PT_VALUES = [0.37 + 0.21j, -0.58 + 0.11j, 0.23 - 0.45j, -0.19 - 0.33j, 0.61 + 0.07j, 0.05 + 0.49j,
              -0.41 + 0.29j, 0.13 - 0.17j]


def _point(symbols):
    names = sorted(symbols, key=lambda s: s.name)
    return {s: _PT_VALUES[i % len(_PT_VALUES)] * (1 + i // len(_PT_VALUES)) for i, s in enumerate(names)}


def _at(e, pt):
    if _is_num(e):
        return _c(e)
    e = sympy.sympify(e)
    return complex(sympy.N(e.subs({k: sympy.sympify(v) for k, v in pt.items()})))


def entries_close(a, b, tol=1e-12):
    """two entry lists denote the same amplitudes"""
    if len(a) != len(b):
        return False
    syms = set()
    for x in list(a) + list(b):
        if isinstance(x, sympy.Basic):
            syms |= x.free_symbols
    pt = _point(syms) if syms else {}
    for x, y in zip(a, b):
        nx, ny = _is_num(x), _is_num(y)
        if nx and ny:
            cx, cy = _c(x), _c(y)
            if cmath.isnan(cx) or cmath.isnan(cy):
                if cmath.isnan(cx) and cmath.isnan(cy):
                    continue
                return False
            if cx == cy:
                continue
            if not abs(cx - cy) <= tol:
                return False
        elif nx != ny:
            return False
        else:
            if x == y:
                continue
            try:
                if not abs(_at(x, pt) - _at(y, pt)) <= 1e-9:
                    return False
            except Exception:
                return False
    return True


def reference_assign(before, idx, val):
    """The same assignment on an independent copy of the pre-state.
    Returns the candidate entry list, or None when the container itself refuses."""
    kind, shape, entries, _ = before
    try:
        if kind == "nd":
            ref = np.array(entries, dtype=complex).reshape(shape)
            ref[idx] = val
            return [complex(x) for x in ref.flatten()]
        ref = sympy.Matrix(list(entries)).reshape(*shape)
        ref[idx] = val
        return list(ref)
    except Exception:
        return None


def _index_kind(before, idx):
    """does indexing the store with idx give a view (rollback needs a copy) or a scalar?"""
    kind, shape = before[0], before[1]
    if kind == "mat":
        return "scalar-index" if not isinstance(idx, slice) else "slice-index"
    if isinstance(idx, (int, np.integer)) and len(shape) == 1:
        return "scalar-index"
    if isinstance(idx, tuple) and len(idx) == len(shape) and all(isinstance(i, (int, np.integer)) for i in idx):
        return "scalar-index"
    if isinstance(idx, (list, np.ndarray)):
        return "fancy-index"
    return "view-index"


def short_entries(entries, limit=300):
    s = "[" + ", ".join(str(e) for e in entries) + "]"
    return s if len(s) <= limit else s[: limit - 3] + "..."


# ----------------------------------------------------------------------------- monitors
def _input_entries(v):
    """entries of a constructor argument, copied before the call; None = outside the oracle's domain"""
    if isinstance(v, np.ndarray):
        if v.ndim == 1 or (v.ndim == 2 and v.shape[1] == 1):
            if v.dtype.kind in "cfiub":
                return [complex(x) for x in v.flatten()], len(v)
            if v.dtype.kind == "O":
                ent = list(v.flatten())
                return (ent, len(v)) if all(_is_num(e) or isinstance(e, sympy.Basic) for e in ent) else None
        return None
    if isinstance(v, sympy.MatrixBase):
        if v.shape[1] == 1:
            return list(v), len(v)
        return None
    if isinstance(v, (list, tuple)):
        ent = list(v)
        if all((_is_num(e) or isinstance(e, sympy.Basic)) and not isinstance(e, sympy.MatrixBase) for e in ent):
            return ent, len(ent)
        return None
    return None


def _pre_init(mon, call):
    v = call.args[1] if len(call.args) > 1 else call.kwargs.get("amplitude_vector")
    return _input_entries(v)


def _post_init(mon, call):
    name = "Wavefunction.__init__"
    if call.pre is None:
        mon.out_of_domain(name)
        return
    entries, n = call.pre
    self = call.args[0]
    pow2 = n >= 1 and n & (n - 1) == 0
    if any(isinstance(e, sympy.Basic) and e.has(sympy.nan, sympy.zoo) for e in entries):
        mon.out_of_domain(name)
        return
    j = judge(entries) if pow2 else "bad"
    if call.exc is not None:
        if j == "ok":
            mon.note(f"ctor:rejected-valid:{type(call.exc).__name__}")
        mon.note("ctor:rejected")
        mon.ok(name)
        return
    if not pow2:
        mon.violation("ctor-accepts-non-power-of-two", f"{n} amplitudes accepted: {short_entries(entries)}")
        return
    if j == "bad":
        mon.violation("ctor-accepts-unnormalised", f"accepted {short_entries(entries)}")
        return
    after = snap(self)
    if after is None:
        mon.violation("ctor-no-state", f"no amplitude store after constructing from {short_entries(entries)}")
        return
    if not entries_close(after[2], entries):
        mon.violation("ctor-changes-amplitudes", f"input {short_entries(entries)} stored as {short_entries(after[2])}")
        return
    mon.note("ctor:accepted:" + after[0] + (":grey" if j == "grey" else ""))
    mon.ok(name)


def _pre_state(mon, call):
    return snap(call.args[0])


def _post_setitem(mon, call):
    self = call.args[0]
    before = call.pre
    if before is None or len(call.args) < 3:
        mon.out_of_domain("Wavefunction.__setitem__")
        return
    idx, val = call.args[1], call.args[2]
    after = snap(self)
    ik = _index_kind(before, idx)
    if call.exc is not None:
        if not same_snap(before, after):
            mon.violation(
                f"setitem-reject-not-rolled-back:{ik}",
                f"wf[{idx!r}] = {val!r} raised {type(call.exc).__name__} but changed the object: "
                f"{short_entries(before[2])} -> {short_entries(after[2]) if after else None}",
            )
            return
        cand = reference_assign(before, idx, val)
        if cand is not None and judge(cand) == "ok":
            mon.note(f"setitem:rejected-valid:{type(call.exc).__name__}")
        mon.note(f"setitem:rejected:{before[0]}:{ik}:{type(call.exc).__name__}")
        mon.ok("setitem:rejected")
        return
    if after is None:
        mon.violation("setitem-no-state", f"wf[{idx!r}] = {val!r} left no amplitude store")
        return
    j = judge(after[2])
    if j == "bad":
        mon.violation(
            "setitem-accepts-breaking-step",
            f"wf[{idx!r}] = {val!r} accepted on {short_entries(before[2])}; now {short_entries(after[2])}",
        )
        return
    cand = reference_assign(before, idx, val)
    if cand is None or any(isinstance(e, sympy.Basic) and e.has(sympy.nan) for e in after[2]):
        mon.out_of_domain("Wavefunction.__setitem__")
        return
    if after[0] != before[0] or after[1] != before[1] or not entries_close(after[2], cand):
        mon.violation(
            "setitem-accepted-wrong-state",
            f"wf[{idx!r}] = {val!r} on {short_entries(before[2])}: now {short_entries(after[2])}, "
            f"expected {short_entries(cand)}",
        )
        return
    if j == "grey":
        mon.out_of_domain("Wavefunction.__setitem__")
        return
    mon.note(f"setitem:accepted:{before[0]}:{ik}")
    mon.ok("setitem:accepted")


def _subs_entries(entries, symbol_map):
    out = []
    for e in entries:
        e = sympy.sympify(e)
        out.append(e.subs(symbol_map))
    return out


def _post_bind(mon, call):
    self = call.args[0]
    before = call.pre
    if before is None:
        mon.out_of_domain("Wavefunction.bind")
        return
    smap = call.args[1] if len(call.args) > 1 else call.kwargs.get("symbol_map")
    after = snap(self)
    if not same_snap(before, after):
        mon.violation(
            "bind-mutates-self",
            f"bind({smap!r}) changed the bound object: {short_entries(before[2])} -> "
            f"{short_entries(after[2]) if after else None}",
        )
        return
    try:
        expected = _subs_entries(before[2], smap) if before[0] == "mat" else list(before[2])
    except Exception:
        expected = None
    if call.exc is not None:
        if expected is not None and judge(expected) == "ok":
            mon.note(f"bind:rejected-valid:{type(call.exc).__name__}")
        mon.ok("bind:rejected")
        return
    res = snap(call.result)
    if res is None:
        mon.violation("bind-no-state", f"bind({smap!r}) returned {call.result!r}")
        return
    j = judge(res[2])
    if j == "bad":
        mon.violation(
            "bind-result-breaks-invariant",
            f"{short_entries(before[2])}.bind({smap!r}) returned {short_entries(res[2])}",
        )
        return
    if expected is None or any(isinstance(e, sympy.Basic) and e.has(sympy.nan, sympy.zoo) for e in expected):
        mon.out_of_domain("Wavefunction.bind")
        return
    if not entries_close(res[2], expected):
        mon.violation(
            "bind-wrong-values",
            f"{short_entries(before[2])}.bind({smap!r}) returned {short_entries(res[2])}, "
            f"substitution gives {short_entries(expected)}",
        )
        return
    if j == "grey":
        mon.out_of_domain("Wavefunction.bind")
        return
    mon.note("bind:accepted:" + ("same-object" if call.result is self else res[0]))
    mon.ok("bind:accepted")


def _compare_probs(ent, flat):
    """('ok' | 'ood' | 'bad', detail): are ``flat`` the squared magnitudes of the entries ``ent``?"""
    syms = set()
    for e in ent:
        if isinstance(e, sympy.Basic):
            syms |= e.free_symbols
    pt = _point(syms)
    for i, (e, p) in enumerate(zip(ent, flat)):
        if _is_num(e):
            exp = abs(_c(e)) ** 2
            if not math.isfinite(exp):
                return "ood", None
            if not (_is_num(p) and abs(_c(p) - exp) <= 1e-12):
                return "bad", f"entry {i}: amplitude {e} probability {p!r} expected {exp!r}"
        else:
            try:
                got = _at(p, pt)
                exp = abs(_at(e, pt)) ** 2
            except Exception:
                return "ood", None
            if not abs(got - exp) <= 1e-9 * max(1.0, exp):
                return "bad", f"entry {i}: amplitude {e} probability {p} evaluates to {got!r}, expected {exp!r}"
    return "ok", None


def _post_probs(mon, call):
    name = "Wavefunction.get_probabilities"
    self = call.args[0]
    before = call.pre
    if before is None or call.exc is not None:
        mon.out_of_domain(name)
        return
    if not same_snap(before, snap(self)):
        mon.violation("probabilities-mutate-object", f"get_probabilities changed {short_entries(before[2])}")
        return
    flat = list(np.asarray(call.result, dtype=object).flatten())
    ent = before[2]
    if len(flat) != len(ent):
        mon.violation("probabilities-length", f"{len(flat)} probabilities for {len(ent)} amplitudes")
        return
    verdict, detail = _compare_probs(ent, flat)
    if verdict == "ood":
        mon.out_of_domain(name)
        return
    if verdict == "bad":
        mon.violation("probabilities-not-squared-magnitudes", detail)
        return
    if all(_is_num(e) for e in ent) and judge(ent) == "ok":
        s = math.fsum(_c(p).real for p in flat)
        if not abs(s - 1.0) <= ISCLOSE_BAND * 1.01:
            mon.violation("probabilities-do-not-sum-to-1", f"sum {s!r} for {short_entries(ent)}")
            return
    mon.ok(name)


def _scalar(v):
    """a probability as stored in the outcome dictionary (a column-shaped store gives arrays of one element)"""
    if isinstance(v, np.ndarray) and v.size == 1:
        return v.reshape(-1)[0]
    return v


def _post_outcome_probs(mon, call):
    """The per-outcome probabilities are the same numbers as ``get_probabilities``: squared magnitudes of the
    object's current amplitudes.  The property does not fix how basis states are labelled, so the labelling is
    not judged: the values must match under little-endian labels, big-endian labels or plain dictionary order."""
    name = "Wavefunction.get_outcome_probs"
    self = call.args[0]
    before = call.pre
    if before is None or call.exc is not None:
        mon.out_of_domain(name)
        return
    if not same_snap(before, snap(self)):
        mon.violation("probabilities-mutate-object", f"get_outcome_probs changed {short_entries(before[2])}")
        return
    ent = before[2]
    n = len(ent)
    d = call.result
    if not isinstance(d, dict):
        mon.out_of_domain(name)
        return
    if len(d) != n:
        mon.violation("probabilities-length", f"{len(d)} outcome probabilities for {n} amplitudes")
        return
    nq = n.bit_length() - 1
    orders = []
    if nq >= 1:
        for rev in (True, False):
            keys = [format(i, f"0{nq}b")[::-1] if rev else format(i, f"0{nq}b") for i in range(n)]
            if all(k in d for k in keys):
                orders.append([_scalar(d[k]) for k in keys])
    orders.append([_scalar(v) for v in d.values()])
    first = None
    for flat in orders:
        verdict, detail = _compare_probs(ent, flat)
        if verdict == "ood":
            mon.out_of_domain(name)
            return
        if verdict == "ok":
            if all(_is_num(e) for e in ent) and judge(ent) == "ok":
                s = math.fsum(_c(p).real for p in flat)
                if not abs(s - 1.0) <= ISCLOSE_BAND * 1.01:
                    mon.violation("probabilities-do-not-sum-to-1", f"outcome probabilities sum {s!r} for {short_entries(ent)}")
                    return
            mon.ok(name)
            return
        first = first or detail
    mon.violation("probabilities-not-squared-magnitudes",
                  f"get_outcome_probs of {short_entries(ent)} = {str(d)[:300]}: {first}")


def _dicke_args(call):
    a = list(call.args)
    n = a[0] if len(a) > 0 else call.kwargs.get("n_qubits")
    k = a[1] if len(a) > 1 else call.kwargs.get("hamming_weight")
    return n, k


def _post_dicke(mon, call):
    name = "Wavefunction.dicke_state"
    n, k = _dicke_args(call)
    if not isinstance(n, (int, np.integer)) or isinstance(n, bool) or n > 14:
        mon.out_of_domain(name)
        return
    integral_k = isinstance(k, (int, np.integer)) or (isinstance(k, float) and k == int(k))
    if not isinstance(k, (int, float, np.integer, np.floating)):
        mon.out_of_domain(name)
        return
    valid = n >= 1 and integral_k and 0 <= k <= n
    if not valid:
        if call.exc is None:
            mon.violation("dicke-accepts-invalid", f"dicke_state({n!r}, {k!r}) returned "
                                                   f"{short_entries((snap(call.result) or [0, 0, ['?']])[2])}")
        else:
            mon.note("dicke:rejected-invalid")
            mon.ok(name)
        return
    if call.exc is not None:
        if isinstance(k, (int, np.integer)):
            mon.violation("dicke-raises", f"dicke_state({n!r}, {k!r}) raised {call.exc!r}")
        else:
            mon.ok(name)  # integral float refused: no state is claimed
        return
    res = snap(call.result)
    if res is None:
        mon.violation("dicke-no-state", f"dicke_state({n}, {k}) returned {call.result!r}")
        return
    k = int(k)
    support = [i for i in range(2**n) if bin(i).count("1") == k]
    amp = 1.0 / math.sqrt(math.comb(n, k))
    ent = res[2]
    if len(ent) != 2**n or not all(_is_num(e) for e in ent):
        mon.violation("dicke-wrong-length", f"dicke_state({n}, {k}) has {len(ent)} amplitudes")
        return
    got_support = [i for i, e in enumerate(ent) if abs(_c(e)) > 1e-14]
    if got_support != support:
        extra = sorted(set(got_support) - set(support))[:6]
        missing = sorted(set(support) - set(got_support))[:6]
        mon.violation("dicke-wrong-support", f"dicke_state({n}, {k}): {len(got_support)} states instead of "
                                             f"{len(support)}; extra {extra} missing {missing}")
        return
    probs = [abs(_c(ent[i])) ** 2 for i in support]
    if any(abs(p - amp * amp) > 1e-12 for p in probs) or any(abs(_c(ent[i]) - amp) > 1e-12 for i in support):
        mon.violation("dicke-wrong-weights", f"dicke_state({n}, {k}): amplitudes {ent[support[0]]!r}.. expected {amp!r}")
        return
    mon.ok(name)


def _flat_obj(a):
    if isinstance(a, sympy.MatrixBase):
        return list(a)
    arr = np.asarray(a, dtype=object) if not isinstance(a, np.ndarray) else a
    return list(arr.flatten())


def _pre_flip_amps(mon, call):
    a = call.args[0] if call.args else call.kwargs.get("amplitudes")
    try:
        n = len(a)
        ent = _flat_obj(a)
    except Exception:
        return None
    if len(ent) != n:
        return None
    return ent


def _post_flip_amps(mon, call):
    name = "flip_amplitudes"
    ent = call.pre
    if ent is None or call.exc is not None and (not ent or len(ent) & (len(ent) - 1)):
        mon.out_of_domain(name)
        return
    n = len(ent)
    if n < 1 or n & (n - 1) or n > 2**14:
        mon.out_of_domain(name)  # the property speaks about qubit registers only
        return
    if call.exc is not None:
        mon.violation("flip-raises", f"flip_amplitudes on {n} amplitudes raised {call.exc!r}")
        return
    got = _flat_obj(call.result)
    rev = L.bit_reversal_perm(n.bit_length() - 1)
    if len(got) != n:
        mon.violation("flip-not-bit-reversal", f"{n} amplitudes in, {len(got)} out")
        return
    for i in range(n):
        x, y = got[i], ent[rev[i]]
        same = (x == y) if not (_is_num(x) and _is_num(y)) else (_c(x) == _c(y) or (cmath.isnan(_c(x)) and cmath.isnan(_c(y))))
        if not same:
            mon.violation("flip-not-bit-reversal",
                          f"{n} amplitudes: output[{i}] = {x!r}, input[{int(rev[i])}] = {y!r}")
            return
    mon.ok(name)


def _pre_flip_wf(mon, call):
    wf = call.args[0] if call.args else call.kwargs.get("wavefunction")
    return snap(wf)


def _post_flip_wf(mon, call):
    name = "flip_wavefunction"
    before = call.pre
    wf = call.args[0] if call.args else call.kwargs.get("wavefunction")
    if before is None:
        mon.out_of_domain(name)
        return
    if not same_snap(before, snap(wf)):
        mon.violation("flip-mutates-argument", f"flip_wavefunction changed its argument {short_entries(before[2])}")
        return
    if call.exc is not None:
        if judge(before[2]) == "ok":
            mon.violation("flip-raises", f"flip_wavefunction({short_entries(before[2])}) raised {call.exc!r}")
        else:
            mon.out_of_domain(name)
        return
    res = snap(call.result)
    n = len(before[2])
    rev = L.bit_reversal_perm(n.bit_length() - 1)
    exp = [before[2][rev[i]] for i in range(n)]
    if res is None or not entries_close(res[2], exp):
        mon.violation("flip-not-bit-reversal",
                      f"flip_wavefunction({short_entries(before[2])}) = {short_entries(res[2]) if res else None}")
        return
    mon.ok(name)


def _post_arr2dict(mon, call):
    name = "convert_array_to_dict"
    a = call.args[0] if call.args else call.kwargs.get("array")
    if call.exc is not None or not isinstance(a, np.ndarray) or a.dtype.kind not in "cfiu":
        mon.out_of_domain(name)
        return
    d = call.result
    re = np.asarray(d.get("real"), dtype=float)
    ok = re.shape == a.shape and np.array_equal(re, a.real)
    if a.dtype.kind == "c":
        im = np.asarray(d.get("imag"), dtype=float) if "imag" in d else None
        ok = ok and im is not None and im.shape == a.shape and np.array_equal(im, a.imag)
    else:
        ok = ok and "imag" not in d
    if not ok:
        mon.violation("array-to-dict-changes-values", f"{a!r} -> {str(d)[:300]}")
    else:
        mon.ok(name)


def _post_dict2arr(mon, call):
    name = "convert_dict_to_array"
    d = call.args[0] if call.args else call.kwargs.get("dictionary")
    if call.exc is not None or not isinstance(d, dict) or "real" not in d:
        mon.out_of_domain(name)
        return
    try:
        re = np.asarray(d["real"], dtype=float)
        im = np.asarray(d["imag"], dtype=float) if d.get("imag") is not None and len(d.get("imag")) else np.zeros(re.shape)
    except Exception:
        mon.out_of_domain(name)
        return
    got = np.asarray(call.result)
    if got.shape != re.shape or not np.array_equal(got.real, re) or not np.array_equal(np.imag(got), im):
        mon.violation("dict-to-array-changes-values", f"{str(d)[:300]} -> {got!r}")
    else:
        mon.ok(name)


def install(mon, reach):
    from orquestra.quantum import utils as U
    from orquestra.quantum import wavefunction as W

    WF = W.Wavefunction
    reach.watch(getattr(WF, "__init__", None), "Wavefunction.__init__")
    reach.watch(getattr(WF, "_check_normalization", None), "Wavefunction._check_normalization", markers={
        "numeric-reject": r"Vector does not result in a unit probability",
        "symbolic-check": r"probs_of_ground_entries > 1\.0",
    })
    reach.watch(getattr(WF, "__setitem__", None), "Wavefunction.__setitem__", markers={"rollback": r"=\s*old_val"})
    reach.watch(WF.bind, "Wavefunction.bind", markers={"rejected": r"Passed map results in a violation"})
    reach.watch(WF.dicke_state, "Wavefunction.dicke_state", markers={"enumerate": r"indices\.append"})
    reach.watch(WF.get_probabilities, "Wavefunction.get_probabilities")
    reach.watch(WF.get_outcome_probs, "Wavefunction.get_outcome_probs")
    reach.watch(W.flip_amplitudes, "flip_amplitudes")
    reach.watch(getattr(W, "_get_ordering", None), "_get_ordering")
    reach.watch(W.flip_wavefunction, "flip_wavefunction")
    reach.watch(W.save_wavefunction, "save_wavefunction")
    reach.watch(W.load_wavefunction, "load_wavefunction")
    reach.watch(U.convert_array_to_dict, "convert_array_to_dict")
    reach.watch(U.convert_dict_to_array, "convert_dict_to_array")

    mon.hook_method(WF, "__init__", post=_post_init, pre=_pre_init, name="Wavefunction.__init__")
    mon.hook_method(WF, "__setitem__", post=_post_setitem, pre=_pre_state, name="Wavefunction.__setitem__")
    mon.hook_method(WF, "bind", post=_post_bind, pre=_pre_state, name="Wavefunction.bind")
    mon.hook_method(WF, "get_probabilities", post=_post_probs, pre=_pre_state, name="Wavefunction.get_probabilities")
    mon.hook_method(WF, "get_outcome_probs", post=_post_outcome_probs, pre=_pre_state,
                    name="Wavefunction.get_outcome_probs")
    mon.hook_method(WF, "dicke_state", post=_post_dicke, name="Wavefunction.dicke_state")
    mon.hook_func(W, "flip_amplitudes", post=_post_flip_amps, pre=_pre_flip_amps, name="flip_amplitudes")
    mon.hook_func(W, "flip_wavefunction", post=_post_flip_wf, pre=_pre_flip_wf, name="flip_wavefunction")
    mon.hook_func(U, "convert_array_to_dict", post=_post_arr2dict, name="convert_array_to_dict")
    mon.hook_func(U, "convert_dict_to_array", post=_post_dict2arr, name="convert_dict_to_array")


# ----------------------------------------------------------------------------- generators
SYMBOLS = ["alpha", "beta", "gamma", "theta_1", "theta_10", "x", "lambda", "phi"]


def _r(x):
    """keep planned constants short and exactly reproducible from their repr"""
    return round(x, 6)


def rand_phase(rng):
    return cmath.exp(1j * rng.choice([math.pi, math.pi / 2, -math.pi / 2, rng.uniform(-math.pi, math.pi)]))


def rand_unit_vector(rng, n, style=None):
    style = style or rng.choice(["dense", "dense", "sparse", "basis", "uniform", "real"])
    if style == "basis":
        v = [0j] * n
        v[rng.randrange(n)] = rand_phase(rng)
        return v
    if style == "uniform":
        return [rand_phase(rng) / math.sqrt(n) for _ in range(n)]
    v = [complex(rng.gauss(0, 1), 0 if style == "real" else rng.gauss(0, 1)) for _ in range(n)]
    if style == "sparse":
        keep = set(rng.sample(range(n), max(1, n // 2)))
        v = [x if i in keep else 0j for i, x in enumerate(v)]
    nrm = math.sqrt(sum(abs(x) ** 2 for x in v))
    if nrm == 0:
        v[0] = 1.0
        nrm = 1.0
    return [x / nrm for x in v]


def _sym(rng, pool=None):
    return sympy.Symbol(rng.choice(pool or SYMBOLS))


def rand_sym_entry(rng, pool=None):
    s = _sym(rng, pool)
    r = rng.random()
    if r < 0.55:
        return s
    if r < 0.7:
        return s / 2
    if r < 0.8:
        return sympy.cos(s)
    if r < 0.9:
        return sympy.sin(s / 2) * sympy.I
    return s * _sym(rng, pool)


def rand_num_entry_value(rng, mag):
    """a number of magnitude ``mag`` in one of several spellings (Python / sympy)"""
    ph = rand_phase(rng)
    z = mag * ph
    r = rng.random()
    if r < 0.5:
        return complex(z) if abs(z.imag) > 1e-15 else float(z.real)
    if r < 0.65:
        return sympy.Float(z.real) + sympy.I * sympy.Float(z.imag) if abs(z.imag) > 1e-15 else sympy.Float(z.real)
    if r < 0.8:
        return float(mag) if rng.random() < 0.5 else -float(mag)
    return complex(z)


class Plan:
    """History planner: a shadow state advanced only by steps predicted to be accepted."""

    def __init__(self, rng, kind, entries, shape):
        self.rng = rng
        self.kind = kind  # 'nd' | 'mat'
        self.shape = shape
        self.entries = list(entries)
        self.steps = []  # (op, payload, expected)
        self.n_acc = 0
        self.n_rej = 0

    # -- utilities
    @property
    def n(self):
        return len(self.entries)

    def before(self):
        return (self.kind, self.shape, list(self.entries), None)

    def numeric_sum(self, entries=None):
        ent = self.entries if entries is None else entries
        return math.fsum(abs(_c(e)) ** 2 for e in ent if _is_num(e))

    def symbols(self):
        s = set()
        for e in self.entries:
            if isinstance(e, sympy.Basic):
                s |= e.free_symbols
        return sorted(s, key=lambda x: x.name)

    def add_set(self, idx, val, tag):
        cand = reference_assign(self.before(), idx, val)
        if cand is None:
            exp = "reject"
        else:
            j = judge(cand)
            exp = {"ok": "accept", "bad": "reject", "grey": "either"}[j]
        self.steps.append(("set", (idx, val, tag), exp))
        if exp == "accept":
            self.entries = cand
            self.n_acc += 1
        elif exp == "reject":
            self.n_rej += 1
        return exp

    def add_bind(self, smap, tag):
        if self.kind != "mat" or not self.symbols():
            self.steps.append(("bind", (smap, tag), "same"))
            return "same"
        new = _subs_entries(self.entries, smap)
        j = judge(new)
        exp = {"ok": "accept", "bad": "reject", "grey": "either"}[j]
        self.steps.append(("bind", (smap, tag), exp))
        if exp == "accept":
            self.n_acc += 1
            self.entries = new
            if not any(isinstance(e, sympy.Basic) and e.free_symbols for e in new):
                self.kind, self.shape = "nd", (self.n, 1)
                self.entries = [_c(e) for e in new]
            else:
                self.kind, self.shape = "mat", (self.n, 1)
        elif exp == "reject":
            self.n_rej += 1
        return exp

    def add_other(self, op):
        self.steps.append((op, None, "n/a"))

    def pos(self, i):
        """spell position i as a positive, negative, numpy or tuple index"""
        r = self.rng.random()
        two_d = len(self.shape) == 2
        if r < 0.55:
            return i
        if r < 0.8:
            return i - self.n
        if r < 0.9:
            return (i, 0) if two_d else int(i)
        return (i - self.n, 0) if two_d else i

    def colval(self, vals):
        """shape a list of values for a slice of the current store"""
        if self.kind == "nd" and len(self.shape) == 2:
            return [[v] for v in vals]
        return list(vals)

    # -- numeric steps
    def step_numeric(self):
        rng = self.rng
        n = self.n
        ent = [_c(e) for e in self.entries]
        nz = [i for i, e in enumerate(ent) if abs(e) > 1e-6] or [0]
        op = rng.choice(["phase", "phase", "rot2", "whole", "bad_single", "bad_single", "bad_slice", "bad_slice",
                         "bad_bcast", "edge_ok", "edge_bad", "oob", "symbol", "wronglen", "nan", "zero", "same",
                         "bad_fancy", "bad_ellipsis", "rot_fancy"])
        if op == "phase":
            i = rng.choice(nz)
            z = ent[i] * rand_phase(rng)
            return self.add_set(self.pos(i), z, op)
        if op in ("rot2", "rot_fancy") and n >= 2:
            if op == "rot2":
                i = rng.randrange(n - 1)
                idx, ps = slice(i, i + 2), [i, i + 1]
                if rng.random() < 0.3:
                    idx = slice(i - n, i - n + 2 if i - n + 2 < 0 else None)
            else:
                ps = rng.sample(range(n), 2)
                idx = list(ps)
            t = rng.uniform(0, 2 * math.pi)
            a, b = ent[ps[0]], ent[ps[1]]
            na = math.cos(t) * a - math.sin(t) * b
            nb = math.sin(t) * a + math.cos(t) * b
            return self.add_set(idx, self.colval([na, nb]), op)
        if op == "whole":
            v = rand_unit_vector(rng, n)
            idx = rng.choice([slice(None), slice(0, n), slice(None, None, 1)])
            return self.add_set(idx, self.colval(v), op)
        if op == "bad_single":
            i = rng.randrange(n)
            m = abs(ent[i])
            nm = rng.choice([m + rng.uniform(0.05, 0.9), max(0.0, m - rng.uniform(0.05, 0.9)), 1.0, 2.0, 0.5, -1.0])
            if abs(nm * nm - m * m) < 1e-3:
                nm = m + 0.3
            return self.add_set(self.pos(i), _r(nm) * rng.choice([1, -1, 1j]), op)
        if op == "bad_slice" and n >= 2:
            i = rng.randrange(n - 1)
            k = rng.randint(2, min(4, n - i))
            idx = rng.choice([slice(i, i + k), slice(i, i + k, 1)]) if rng.random() < 0.8 else slice(None, None, 2)
            cnt = len(range(*idx.indices(n)))
            vals = [_r(rng.uniform(-0.9, 0.9)) for _ in range(cnt)]
            return self.add_set(idx, self.colval(vals), op)
        if op == "bad_bcast" and n >= 2:
            i = rng.randrange(n - 1)
            return self.add_set(slice(i, None), _r(rng.uniform(0.05, 0.95)), op)
        if op == "bad_fancy" and n >= 2:
            ps = rng.sample(range(n), 2)
            return self.add_set(list(ps), self.colval([_r(rng.uniform(-0.9, 0.9)), _r(rng.uniform(-0.9, 0.9))]), op)
        if op == "bad_ellipsis":
            return self.add_set(Ellipsis, _r(rng.uniform(0.05, 0.45)) if n > 4 else 0.9, op)
        if op in ("edge_ok", "edge_bad"):
            i = rng.choice(nz)
            rest = self.numeric_sum() - abs(ent[i]) ** 2
            delta = rng.choice([5e-6, -5e-6, 2e-6]) if op == "edge_ok" else rng.choice([3e-5, -3e-5, 1.2e-5, -1.5e-5])
            tgt = 1.0 + delta - rest
            if tgt <= 0:
                return self.add_set(self.pos(i), 0.75, "bad_single")
            return self.add_set(self.pos(i), math.sqrt(tgt) * rand_phase(rng), op)
        if op == "oob":
            return self.add_set(rng.choice([n, n + 3, -n - 1]), 0.5, op)
        if op == "symbol":
            return self.add_set(self.pos(rng.randrange(n)), rand_sym_entry(rng), op)
        if op == "wronglen" and n >= 2:
            i = rng.randrange(n - 1)
            return self.add_set(slice(i, i + 2), self.colval([0.1, 0.2, 0.3]), op)
        if op == "nan":
            return self.add_set(self.pos(rng.randrange(n)), rng.choice([float("nan"), float("inf"), complex(0, float("inf"))]), op)
        if op == "zero":
            return self.add_set(self.pos(rng.randrange(n)), 0, op)
        if op == "same":
            i = rng.randrange(n)
            return self.add_set(self.pos(i), ent[i], op)
        i = rng.choice(nz)
        return self.add_set(self.pos(i), -ent[i], "phase")

    # -- symbolic / mixed steps
    def step_symbolic(self):
        rng = self.rng
        n = self.n
        ent = self.entries
        sym_pos = [i for i, e in enumerate(ent) if not _is_num(e)]
        num_pos = [i for i, e in enumerate(ent) if _is_num(e)]
        s = self.numeric_sum()
        syms = self.symbols()
        ops = ["num_ok", "num_bad", "num_bad", "sym_over", "sym_over", "oob", "slice", "nanfree_zero",
               "bind_partial_ok", "bind_partial_bad", "bind_noop", "bind_sym2sym", "bind_total_ok",
               "bind_total_bad", "complete", "exact_one"]
        op = rng.choice(ops)
        if not syms:
            # symbol-free Matrix store: the numeric rule applies
            op = rng.choice(["m_phase", "m_bad", "m_shrink", "m_shrink", "m_sym", "bind_noop"])
            if op == "m_shrink":
                # an entry made SMALLER (or zero) breaks the unit sum just as a larger one does
                cand = [i for i in range(n) if abs(_c(ent[i])) > 0.15]
                if cand:
                    i = rng.choice(cand)
                    m = abs(_c(ent[i]))
                    nm = rng.choice([0.0, max(0.0, m - rng.uniform(0.1, 0.6)), m * 0.5])
                    return self.add_set(self.pos(i), _r(nm) * rng.choice([1, -1, 1j]) if nm else 0, op)
                op = "m_bad"
            if op == "m_phase":
                i = rng.randrange(n)
                return self.add_set(self.pos(i), _c(ent[i]) * rand_phase(rng), op)
            if op == "m_bad":
                i = rng.randrange(n)
                return self.add_set(self.pos(i), _r(abs(_c(ent[i])) + rng.uniform(0.1, 0.6)), op)
            if op == "m_sym":
                return self.add_set(self.pos(rng.randrange(n)), rand_sym_entry(rng), op)
            return self.add_bind({_sym(rng): 0.5}, op)
        if op == "num_ok":
            i = rng.randrange(n)
            rest = s - (abs(_c(ent[i])) ** 2 if _is_num(ent[i]) else 0.0)
            room = 0.98 - rest
            if len(sym_pos) == 1 and i == sym_pos[0]:
                op = "complete"
            elif room <= 1e-3:
                return self.add_set(self.pos(i), 0, op)
            else:
                return self.add_set(self.pos(i), rand_num_entry_value(rng, _r(math.sqrt(room * rng.uniform(0.05, 1.0)))), op)
        if op == "num_bad":
            i = rng.randrange(n)
            rest = s - (abs(_c(ent[i])) ** 2 if _is_num(ent[i]) else 0.0)
            mag = math.sqrt(max(0.0, 1.0 - rest) + rng.uniform(0.03, 0.8))
            return self.add_set(self.pos(i), rand_num_entry_value(rng, _r(mag)), op)
        if op == "sym_over":
            i = rng.randrange(n)
            if len(sym_pos) == 1 and i == sym_pos[0] and rng.random() < 0.5:
                i = rng.choice(num_pos) if num_pos else i
            return self.add_set(self.pos(i), rand_sym_entry(rng), op)
        if op == "oob":
            return self.add_set(rng.choice([n, -n - 1, (n, 0)]), 0.1, op)
        if op == "slice" and n >= 2:
            i = rng.randrange(n - 1)
            v = [0.1, 0.2]
            val = rng.choice([v, sympy.Matrix(v), 0.1])
            return self.add_set(slice(i, i + 2), val, op)
        if op == "nanfree_zero":
            return self.add_set(self.pos(rng.randrange(n)), 0, op)
        if op == "complete":
            # replace the last symbolic entry by a number: with no symbol left the sum must be 1
            if len(sym_pos) != 1:
                i = rng.choice(sym_pos)
                return self.add_set(self.pos(i), rand_num_entry_value(rng, _r(math.sqrt(max(0.0, 0.9 - s)) * 0.5)), "num_ok")
            i = sym_pos[0]
            if rng.random() < 0.5 and s < 1:
                return self.add_set(self.pos(i), math.sqrt(1.0 - s) * rand_phase(rng), "complete_ok")
            return self.add_set(self.pos(i), _r(math.sqrt(max(0.0, 1.0 - s)) * 0.5 + rng.choice([0.0, 0.9])), "complete_bad")
        if op == "exact_one" and num_pos:
            # numeric entries summing to exactly 1 next to symbols: not 'exceeding'; no accept/reject verdict
            i = rng.choice(num_pos)
            rest = s - abs(_c(ent[i])) ** 2
            if rest < 1:
                return self.add_set(self.pos(i), math.sqrt(1.0 - rest), op)
        if op.startswith("bind") and syms:
            free_names = [x for x in SYMBOLS + ["mu", "nu"] if sympy.Symbol(x) not in syms] or ["fresh_%d" % len(syms)]
            if op == "bind_noop":
                m = rng.choice([{}, {sympy.Symbol(rng.choice(free_names)): 0.3}])
                return self.add_bind(m, op)
            if op == "bind_sym2sym":
                k = rng.choice(syms)
                new = sympy.Symbol(rng.choice(free_names))
                return self.add_bind({k: rng.choice([new, new / 2, sympy.cos(new)])}, op)
            total = op.startswith("bind_total") or len(syms) == 1
            chosen = list(syms) if total else rng.sample(syms, rng.randint(1, len(syms) - 1))
            want_ok = op.endswith("_ok")
            m = {}
            for k in chosen:
                m[k] = _r(rng.uniform(-0.6, 0.6)) if rng.random() < 0.8 else complex(_r(rng.uniform(-.4, .4)), _r(rng.uniform(-.4, .4)))
            if rng.random() < 0.25:
                m = {(k.name if rng.random() < 0.5 else k): v for k, v in m.items()}
            new = _subs_entries(ent, m)
            fully = not any(isinstance(e, sympy.Basic) and e.free_symbols for e in new)
            if fully and want_ok:
                # spread what is left of the unit norm over the entries that are a bare symbol of their own
                bare = [k for k in chosen if sum(1 for e in ent if e == k) == 1 and
                        all((k not in e.free_symbols) or e == k for e in ent if isinstance(e, sympy.Basic))]
                if bare:
                    m2 = {kk: v for kk, v in m.items()
                          if (kk if isinstance(kk, sympy.Symbol) else sympy.Symbol(kk)) not in bare}
                    part = _subs_entries(ent, m2)
                    others = math.fsum(abs(_c(e)) ** 2 for e in part if _is_num(e))
                    if others < 1:
                        w = [rng.random() + 0.05 for _ in bare]
                        tot = sum(w)
                        for k, wk in zip(bare, w):
                            m2[k] = math.sqrt((1.0 - others) * wk / tot) * rng.choice([1, -1, 1j])
                        m = m2
            if not fully and not want_ok:
                # push the numeric part above 1
                k = chosen[0]
                key = [kk for kk in m if (kk if isinstance(kk, sympy.Symbol) else sympy.Symbol(kk)) == k][0]
                m[key] = _r(1.0 + rng.uniform(0.05, 0.5))
            return self.add_bind(m, op)
        # fallback
        i = rng.randrange(n)
        return self.add_set(self.pos(i), rand_sym_entry(rng), "sym_over")

    def describe(self):
        out = []
        for op, payload, exp in self.steps:
            if op == "set":
                idx, val, tag = payload
                out.append(f"set[{idx!r}]={_vstr(val)}:{tag}:{exp}")
            elif op == "bind":
                smap, tag = payload
                out.append(f"bind({ {str(k): v for k, v in smap.items()} }):{exp}")
            else:
                out.append(op)
        return "; ".join(out)


def _vstr(v):
    if isinstance(v, (list, tuple)):
        return "[" + ",".join(_vstr(x) for x in v) + "]"
    if isinstance(v, sympy.MatrixBase):
        return "Matrix" + _vstr(list(v))
    if isinstance(v, complex):
        return f"({v.real:.12g}{v.imag:+.12g}j)"
    if isinstance(v, float):
        return f"{v:.12g}"
    return str(v)


def initial_state(rng, cls):
    """(constructor argument, kind, shape, entries)"""
    nq = rng.choice([0, 1, 1, 2, 2, 2, 3, 3, 4])
    n = 2**nq
    if cls == "hist_numeric":
        v = rand_unit_vector(rng, n)
        form = rng.choice(["list", "list", "ndarray", "tuple", "real_list"])
        if form == "real_list":
            v = [complex(x.real, 0) for x in rand_unit_vector(rng, n, "real")]
            arg = [x.real for x in v]
        elif form == "ndarray":
            arg = np.array(v, dtype=complex)  # fresh array owned by the wavefunction from now on
        elif form == "tuple":
            arg = tuple(v)
        else:
            arg = list(v)
        return arg, "nd", (n,), v
    if cls == "hist_column":
        v = rand_unit_vector(rng, n)
        form = rng.choice(["column", "matrix", "column"])
        if form == "column":
            arg = np.array(v, dtype=complex).reshape(n, 1)
        else:
            arg = sympy.Matrix([sympy.Float(x.real) + sympy.I * sympy.Float(x.imag) for x in v])
        return arg, "nd", (n, 1), v
    # symbolic / mixed
    pool = rng.sample(SYMBOLS, rng.randint(1, 3))
    distinct = rng.random() < 0.5  # every symbolic position holds its own bare symbol
    names = rng.sample(SYMBOLS + [f"a{i}" for i in range(12)], n) if distinct else None

    def sym_entry(i):
        return sympy.Symbol(names[i]) if distinct else rand_sym_entry(rng, pool)

    if cls == "hist_symbolic":
        ent = [sym_entry(i) for i in range(n)]
    else:
        k = rng.randint(1, max(1, n - 1)) if n > 1 else 1
        sym_at = set(rng.sample(range(n), k))
        budget = rng.choice([0.0, 0.3, 0.7, 0.95])
        u = rand_unit_vector(rng, n, "dense")
        ent = []
        for i in range(n):
            if i in sym_at:
                ent.append(sym_entry(i))
            else:
                z = u[i] * math.sqrt(budget)
                ent.append(rand_num_entry_value(rng, _r(abs(z))))
    arg = list(ent) if rng.random() < 0.7 else sympy.Matrix(ent)
    ent = list(sympy.Matrix(ent))
    return arg, "mat", (n, 1), ent


# ----------------------------------------------------------------------------- cases
def _run_history(ctx, cls):
    from orquestra.quantum.wavefunction import Wavefunction, flip_wavefunction

    rng = ctx.rng
    arg, kind, shape, ent = initial_state(rng, cls)
    plan = Plan(rng, kind, ent, shape)
    nsteps = rng.randint(5, 40 if not ctx.quick else 25)
    for _ in range(nsteps):
        r = rng.random()
        if r < 0.12:
            plan.add_other(rng.choice(["probs", "amps", "flip", "iter", "str", "bind_numeric"]))
            continue
        out = plan.step_numeric() if plan.kind == "nd" else plan.step_symbolic()
        if out == "either":
            break  # outcome not predictable (tolerance edge): nothing is planned on top of it
    desc = f"{cls} init={short_entries(ent, 200)} :: {plan.describe()}"
    ctx.describe(desc[:6000], plan.n_acc >= 1 and plan.n_rej >= 1)

    try:
        wf = Wavefunction(arg)
    except Exception as e:
        ctx.check("ctor-accepts-valid", judge(ent) != "ok", f"Wavefunction({short_entries(ent)}) raised {e!r}")
        return
    ctx.check("ctor-accepts-valid", True)
    shadow = snap(wf)
    if shadow is None or not entries_close(shadow[2], ent):
        ctx.check("history-shadow", False, f"initial state {short_entries(ent)} stored as {shadow and short_entries(shadow[2])}")
        return
    retired = []  # (object, snapshot) pairs that must never change again
    for op, payload, exp in plan.steps:
        if op == "set":
            idx, val, tag = payload
            try:
                wf[idx] = val
                raised = None
            except Exception as e:  # judged by the hook; the shadow only follows accepted steps
                raised = e
            if raised is None:
                cand = reference_assign(shadow, idx, val)
                if cand is None:
                    ctx.mon.note("history:accepted-where-reference-refuses")
                    return
                new_entries = cand
                ctx.mon.note(f"history:set:{tag}:accepted")
            else:
                new_entries = shadow[2]
                ctx.mon.note(f"history:set:{tag}:rejected:{type(raised).__name__}")
            if exp in ("accept", "reject") and (raised is None) != (exp == "accept"):
                ctx.mon.note(f"history:prediction-differs:{tag}:{exp}")
            now = snap(wf)
            ok = now is not None and now[0] == shadow[0] and now[1] == shadow[1] and (
                same_snap(now, shadow) if raised is not None else entries_close(now[2], new_entries))
            ctx.check("history-shadow", ok, lambda: (
                f"after wf[{idx!r}] = {_vstr(val)} ({'raised ' + type(raised).__name__ if raised else 'accepted'}) the object "
                f"holds {now and short_entries(now[2])}, shadow model says {short_entries(new_entries)}"))
            if not ok:
                return
            shadow = now
        elif op == "bind":
            smap, tag = payload
            try:
                res = wf.bind(dict(smap))
                raised = None
            except Exception as e:
                raised = e
            now = snap(wf)
            ok = same_snap(now, shadow)
            ctx.check("history-shadow", ok, lambda: f"bind({smap!r}) changed the object: {short_entries(shadow[2])} -> {now and short_entries(now[2])}")
            if not ok:
                return
            if exp in ("accept", "reject") and (raised is None) != (exp == "accept"):
                ctx.mon.note(f"history:prediction-differs:{tag}:{exp}")
            ctx.mon.note(f"history:{tag}:{'rejected' if raised else 'accepted'}")
            if raised is None and res is not wf:
                retired.append((wf, shadow))
                wf = res
                shadow = snap(wf)
                if shadow is None:
                    return
        elif op == "probs":
            wf.get_probabilities()
        elif op == "amps":
            a = wf.amplitudes
            flat = _flat_obj(a)
            ctx.check("amplitudes-view", entries_close(flat, shadow[2]),
                      lambda: f"amplitudes {short_entries(flat)} differ from the stored {short_entries(shadow[2])}")
        elif op == "flip":
            if judge(shadow[2]) == "ok" or shadow[0] == "mat":
                try:
                    f = flip_wavefunction(wf)
                    g = flip_wavefunction(f)
                    ctx.check("flip-involution", entries_close(snap(g)[2], shadow[2]),
                              lambda: f"flip(flip(wf)) = {short_entries(snap(g)[2])} for {short_entries(shadow[2])}")
                except Exception as e:
                    if judge(shadow[2]) == "ok":
                        raise
                    ctx.mon.note(f"history:flip-of-symbolic-raised:{type(e).__name__}")
        elif op == "iter":
            items = [x for x in wf]
            ctx.check("iteration-view", len(items) == len(wf) == len(shadow[2]), "len/iter disagree with the store")
        elif op == "str":
            str(wf)
        elif op == "bind_numeric":
            if shadow[0] == "nd":
                r = wf.bind({sympy.Symbol("alpha"): 0.1})
                ctx.check("history-shadow", same_snap(snap(r), shadow), "bind on a numeric wavefunction changed it")
        now = snap(wf)
        if not same_snap(now, shadow):
            ctx.check("history-shadow", False, f"{op} changed the object: {short_entries(shadow[2])} -> {now and short_entries(now[2])}")
            return
    for obj, s in retired:
        if not same_snap(snap(obj), s):
            ctx.check("history-shadow", False, f"a wavefunction that was bound earlier changed afterwards: {short_entries(s[2])}")
            return
    # the end state, through the public API
    j = judge(shadow[2])
    ctx.check("history-final-invariant", j != "bad", lambda: f"history ended in {short_entries(shadow[2])}")
    if j == "ok" and all(_is_num(e) for e in shadow[2]):
        p = np.asarray(wf.get_probabilities(), dtype=object).flatten()
        s = math.fsum(float(_c(x).real) for x in p)
        ctx.check("history-final-invariant", abs(s - 1) <= ISCLOSE_BAND * 1.01, lambda: f"probabilities sum to {s!r}")


# ----------------------------------------------------------------------------- histories over related objects
# Several wavefunction objects that descend from one another (built from the amplitudes of another one, from a
# slice of it, from the array the caller still holds, by flipping, by binding) are mutated in turn, and after
# EVERY step EVERY object is asked for its probabilities.  What is demanded of each object is only what the
# property states: it is still normalised, and its probabilities are the squared magnitudes of the amplitudes it
# holds NOW.  Whether two objects share storage is observed (numpy's may_share_memory on the stores), never
# predicted or demanded; an object that shares nothing with the target of a step must come out of it unchanged,
# and after a refused step every object must.  Per-object derived state (memoised probabilities, converted
# amplitudes, symbol sets) that goes stale through an assignment made via a relative shows up here.
_REL_DERIVE_ND = ["amplitudes", "amplitudes", "getslice", "same_arg", "copy", "list", "wf", "flip", "bind_empty"]
_REL_DERIVE_MAT = ["amplitudes", "getslice", "list", "wf", "flip", "bind_empty", "bind_some", "bind_some", "bind_total"]
_REL_LEGAL_ND = ["rot", "rot", "rot", "swap", "move", "move", "whole", "phase"]
_REL_LEGAL_MAT = ["num_small", "num_small", "sym", "complete", "pair_small"]
_REL_ILLEGAL_ND = ["bad_single", "bad_single", "bad_pair", "bad_bcast"]
_REL_ILLEGAL_MAT = ["num_big", "num_big", "sym_pair_big"]
_REL_STYLES = ["slice", "negslice", "list", "array", "neglist"]
_REL_MAX_POOL = 5


def _plan_related(rng, quick):
    flavour = rng.choice(["list", "carray", "carray", "farray", "column", "tuple", "mat", "mat"])
    if flavour == "mat":
        nq = rng.choice([1, 2, 2, 3])
    else:
        nq = rng.choice([0, 1, 2, 2, 3, 3, 4, 5])
    n = 2**nq
    if flavour == "mat":
        pool = rng.sample(SYMBOLS, rng.randint(1, 3))
        k = rng.randint(1, max(1, n - 1))
        sym_at = set(rng.sample(range(n), k))
        budget = rng.choice([0.0, 0.3, 0.7])
        u = rand_unit_vector(rng, n, "dense")
        distinct = rng.random() < 0.6
        names = rng.sample(SYMBOLS + [f"a{i}" for i in range(8)], n)
        ent = []
        for i in range(n):
            if i in sym_at:
                ent.append(sympy.Symbol(names[i]) if distinct else rand_sym_entry(rng, pool))
            else:
                ent.append(_r(abs(u[i]) * math.sqrt(budget)) * rng.choice([1, -1, 1j]))
        init = ent
    else:
        style = "real" if flavour == "farray" else rng.choice(["dense", "dense", "sparse", "basis", "uniform"])
        init = rand_unit_vector(rng, n, style)
    steps = []
    nsteps = rng.randint(6, 14 if quick else 26)
    nder = 0
    for i in range(nsteps):
        r = rng.random()
        k = rng.randrange(_REL_MAX_POOL * 2)
        if i == 0 or (r < 0.22 and nder < 5):
            nder += 1
            steps.append(("derive", k, rng.choice(_REL_DERIVE_ND), rng.choice(_REL_DERIVE_MAT), rng.random() < 0.15,
                          _r(rng.random())))
        else:
            legal = r < 0.75
            t = rng.choice([rng.uniform(0.1, 2 * math.pi - 0.1), rng.uniform(0.1, 3.0), math.pi / 2, 1e-3, 1e-5])
            whole = rand_unit_vector(rng, n) if legal and rng.random() < 0.2 else None
            steps.append(("legal" if legal else "illegal", k,
                          rng.choice(_REL_LEGAL_ND if legal else _REL_ILLEGAL_ND),
                          rng.choice(_REL_LEGAL_MAT if legal else _REL_ILLEGAL_MAT),
                          _r(rng.random()), _r(rng.random()), _r(t), rng.choice(_REL_STYLES), whole))
    return flavour, n, init, steps


def _rel_describe(flavour, n, init, steps):
    out = []
    for st in steps:
        if st[0] == "derive":
            out.append(f"derive(obj{st[1]},{st[2]}|{st[3]}{',replace' if st[4] else ''},{st[5]})")
        else:
            w = "" if st[8] is None else "," + _vstr([complex(round(z.real, 6), round(z.imag, 6)) for z in st[8]])
            out.append(f"{st[0]}(obj{st[1]},{st[2]}|{st[3]},{st[4]},{st[5]},{st[6]},{st[7]}{w})")
    return f"hist_related {flavour} n={n} init={short_entries(init, 200)} :: " + "; ".join(out)


def _rel_pair_index(style, i, j, n):
    """an index expression that selects exactly positions i < j, in that order"""
    if style == "slice":
        return slice(i, j + 1, j - i)
    if style == "negslice":
        return slice(i - n, (j + 1 - n) if j + 1 < n else None, j - i)
    if style == "array":
        return np.array([i, j])
    if style == "neglist":
        return [i - n, j - n]
    return [i, j]


def _rel_single_index(style, i, n, two_d):
    if style in ("negslice", "neglist"):
        i = i - n
    if two_d and style in ("array", "neglist"):
        return (i, 0)
    return i


def _rel_step_nd(st, s):
    """(index, value) of a planned step for a target whose store is the numeric array snapshot ``s``"""
    _, _, op, _, u1, u2, t, style, whole = st
    shape, ent = s[1], s[2]
    n = len(ent)
    two_d = len(shape) == 2

    def col(vals):
        return [[v] for v in vals] if two_d else list(vals)

    nz = [i for i, e in enumerate(ent) if abs(e) > 1e-6] or [0]
    a_pos = nz[min(int(u1 * len(nz)), len(nz) - 1)]
    others = [x for x in range(n) if x != a_pos]
    if op == "whole" or (whole is not None and st[0] == "legal"):
        return slice(None), col(whole if whole is not None else [e * cmath.exp(1j * t) for e in ent])
    if not others or op == "phase":
        if st[0] == "legal":
            return _rel_single_index(style, a_pos, n, two_d), ent[a_pos] * cmath.exp(1j * t)
        return _rel_single_index(style, a_pos, n, two_d), abs(ent[a_pos]) + 0.3 + 0.5 * u2
    b_pos = others[min(int(u2 * len(others)), len(others) - 1)]
    i, j = min(a_pos, b_pos), max(a_pos, b_pos)
    a, b = ent[i], ent[j]
    idx = _rel_pair_index(style, i, j, n)
    if op == "rot":
        return idx, col([math.cos(t) * a - math.sin(t) * b, math.sin(t) * a + math.cos(t) * b])
    if op == "swap":
        return idx, col([b, a])
    if op == "move":
        m = math.sqrt(abs(a) ** 2 + abs(b) ** 2)
        return idx, col([0.0, m] if u2 < 0.5 else [m * cmath.exp(1j * t), 0.0])
    if op == "bad_single":
        return _rel_single_index(style, a_pos, n, two_d), (abs(ent[a_pos]) + 0.3 + 0.5 * u2) * (1 if u1 < 0.5 else 1j)
    if op == "bad_pair":
        return idx, col([_r(0.55 + 0.4 * u1), _r(-0.55 - 0.4 * u2)])
    # bad_bcast
    return slice(i, None), _r(0.75 + 0.2 * u2)


def _rel_step_mat(st, s):
    """(index, value) of a planned step for a target whose store is the sympy Matrix snapshot ``s``"""
    _, _, _, op, u1, u2, t, style, _ = st
    ent = s[2]
    n = len(ent)
    sym_pos = [i for i, e in enumerate(ent) if not _is_num(e)]
    tot = math.fsum(abs(_c(e)) ** 2 for e in ent if _is_num(e))
    i = min(int(u1 * n), n - 1)
    if st[0] == "legal" and op == "complete" and sym_pos:
        i = sym_pos[min(int(u1 * len(sym_pos)), len(sym_pos) - 1)]
    rest = tot - (abs(_c(ent[i])) ** 2 if _is_num(ent[i]) else 0.0)
    idx = _rel_single_index(style, i, n, True)
    ph = cmath.exp(1j * t) if u2 < 0.5 else (1.0 if u2 < 0.75 else -1.0)
    if not sym_pos:
        # symbol-free Matrix store: the numeric rule applies
        if st[0] == "legal":
            return (idx, _c(ent[i]) * cmath.exp(1j * t)) if op != "sym" else (idx, sympy.Symbol(SYMBOLS[int(u2 * 7.99)]))
        return idx, abs(_c(ent[i])) + 0.3 + 0.5 * u2
    if st[0] == "illegal":
        big = math.sqrt(max(0.0, 1.0 - rest) + 0.05 + 0.7 * u2)
        if op == "sym_pair_big" and n >= 2:
            i = min(i, n - 2)
            return (slice(i, i + 2), 0), [sympy.Symbol(SYMBOLS[int(u2 * 7.99)]), _r(1.0 + u2)]
        return idx, _r(big) * (1 if u1 < 0.5 else 1j)
    if op == "sym":
        x = sympy.Symbol(SYMBOLS[int(u2 * 7.99)])
        return idx, (x if u1 < 0.7 else x / 2)
    if op == "complete" or (len(sym_pos) == 1 and i == sym_pos[0]):
        if len(sym_pos) == 1 and rest < 1:
            return idx, math.sqrt(1.0 - rest) * ph  # the last symbol goes: the numbers must now sum to 1
    room = 0.98 - rest
    if op == "pair_small" and n >= 2:
        i = min(i, n - 2)
        rest2 = tot - sum(abs(_c(ent[q])) ** 2 for q in (i, i + 1) if _is_num(ent[q]))
        m = math.sqrt(max(0.0, 0.98 - rest2) * 0.4 * max(u2, 0.05))
        return (slice(i, i + 2), 0), [_r(m), _r(m) * 1j]
    if room <= 1e-3:
        return idx, 0
    return idx, _r(math.sqrt(room * max(u2, 0.05))) * ph


def _rel_bind_map(s, how, u):
    """a binding for a symbolic store: 'bind_some' = a proper subset of the symbols gets small values,
    'bind_total' = every symbol gets a value, the bare ones sharing what is left of the unit norm"""
    ent = s[2]
    syms = set()
    for e in ent:
        if isinstance(e, sympy.Basic):
            syms |= e.free_symbols
    syms = sorted(syms, key=lambda x: x.name)
    if not syms:
        return {sympy.Symbol("alpha"): 0.1}
    if how == "bind_some" and len(syms) > 1:
        k = 1 + min(int(u * (len(syms) - 1)), len(syms) - 2)
        return {x: _r(0.05 + 0.1 * q) for q, x in enumerate(syms[:k])}
    bare = [x for x in syms if sum(1 for e in ent if e == x) == 1 and
            all((x not in e.free_symbols) or e == x for e in ent if isinstance(e, sympy.Basic))]
    m = {x: _r(0.05 + 0.1 * q) for q, x in enumerate(syms) if x not in bare}
    if bare:
        part = _subs_entries(ent, m)
        others = math.fsum(abs(_c(e)) ** 2 for e in part if _is_num(e))
        if others < 1:
            w = [1.0 + q + u for q in range(len(bare))]
            for x, wx in zip(bare, w):
                m[x] = math.sqrt((1.0 - others) * wx / sum(w)) * (1j if u > 0.5 else 1)
        else:
            for x in bare:
                m[x] = 0.1
    return m


def _stores_may_share(a, b):
    if a is b:
        return True
    va, vb = _store(a), _store(b)
    if va is None or vb is None:
        return False
    if va is vb:
        return True
    if isinstance(va, np.ndarray) and isinstance(vb, np.ndarray):
        return bool(np.may_share_memory(va, vb))
    return False


def _rel_observe(ctx, pool, when):
    """every object: still normalised; probabilities (both accessors, judged by the hooks against the object's own
    store) and the public amplitudes describe what the object holds now"""
    for k, wf in enumerate(pool):
        s = snap(wf)
        j = judge(s[2]) if s is not None else "bad"
        ctx.check("related-invariant", j != "bad",
                  lambda: f"{when}: object {k} holds {s and short_entries(s[2])}")
        if j == "bad":
            return False
        # what a value-returning accessor hands out belongs to the caller, who may renormalise, clip or clear it:
        # the next request (here: the one made inside get_outcome_probs, and those after the next step) must not
        # be answered from the caller's copy
        p = wf.get_probabilities()
        if isinstance(p, np.ndarray) and p.flags.writeable and p.size and p.dtype != object:
            p[...] = 7.25
        d = wf.get_outcome_probs()
        if isinstance(d, dict):
            for v in d.values():
                if isinstance(v, np.ndarray) and v.flags.writeable and v.size and v.dtype != object:
                    v[...] = 7.25
            d.clear()
        flat = _flat_obj(wf.amplitudes)
        ctx.check("amplitudes-view", entries_close(flat, s[2]),
                  lambda: f"{when}: object {k}: amplitudes {short_entries(flat)} differ from the stored {short_entries(s[2])}")
    return True


def _run_related(ctx):
    from orquestra.quantum.wavefunction import Wavefunction, flip_wavefunction

    rng = ctx.rng
    flavour, n, init, steps = _plan_related(rng, ctx.quick)
    kinds = [st[0] for st in steps]
    first_derive = kinds.index("derive")
    nontrivial = "legal" in kinds[first_derive + 1:] and "illegal" in kinds
    ctx.describe(_rel_describe(flavour, n, init, steps)[:6000], nontrivial)

    if flavour == "carray":
        arg = np.array(init, dtype=complex)  # the caller keeps this array
    elif flavour == "farray":
        arg = np.array([z.real for z in init], dtype=float)
    elif flavour == "column":
        arg = np.array(init, dtype=complex).reshape(n, 1)
    elif flavour == "tuple":
        arg = tuple(init)
    else:
        arg = list(init)
    try:
        wf0 = Wavefunction(arg)
    except Exception as e:
        ctx.check("ctor-accepts-valid", judge(init) != "ok", f"Wavefunction({short_entries(init)}) raised {e!r}")
        return
    ctx.check("ctor-accepts-valid", True)
    pool = [wf0]
    if not _rel_observe(ctx, pool, "after construction"):
        return
    for num, st in enumerate(steps):
        tgt = pool[st[1] % len(pool)]
        before = [snap(w) for w in pool]
        s = before[st[1] % len(pool)]
        if s is None:
            return
        when = f"step {num} {st[0]}"
        if st[0] == "derive":
            how = st[2] if s[0] == "nd" else st[3]
            new = None
            try:
                if how == "amplitudes":
                    new = Wavefunction(tgt.amplitudes)
                elif how == "getslice":
                    new = Wavefunction(tgt[:])
                elif how == "same_arg":
                    new = Wavefunction(arg if isinstance(arg, np.ndarray) else tgt.amplitudes)
                elif how == "copy":
                    new = Wavefunction(np.array(tgt.amplitudes))
                elif how == "list":
                    new = Wavefunction(list(tgt.amplitudes))
                elif how == "wf":
                    new = Wavefunction(tgt)
                elif how == "flip":
                    new = flip_wavefunction(tgt)
                elif how == "bind_empty":
                    new = tgt.bind({})
                else:
                    new = tgt.bind(_rel_bind_map(s, how, st[5]) if s[0] == "mat" else {sympy.Symbol("alpha"): 0.1})
                ctx.mon.note(f"related:derive:{how}:{s[0]}:ok")
            except Exception as e:
                ctx.mon.note(f"related:derive:{how}:{s[0]}:{type(e).__name__}")
                if not how.startswith("bind") and judge(s[2]) == "ok" and all(_is_num(x) for x in s[2]):
                    ctx.check("ctor-accepts-valid", False,
                              f"{how} of a wavefunction holding {short_entries(s[2])} raised {e!r}")
                    return
            ok = all(same_snap(b, snap(w)) for b, w in zip(before, pool))
            ctx.check("related-bystander", ok, lambda: f"{when} ({how}) changed an existing object")
            if not ok:
                return
            if new is not None and all(new is not w for w in pool):
                if any(_stores_may_share(new, w) for w in pool):
                    ctx.mon.note("related:derived-object-shares-storage")
                if st[4] and len(pool) > 1:
                    pool[st[1] % len(pool)] = new
                elif len(pool) < _REL_MAX_POOL:
                    pool.append(new)
                else:
                    pool[-1] = new
            del tgt, new
        else:
            idx, val = _rel_step_nd(st, s) if s[0] == "nd" else _rel_step_mat(st, s)
            shares = [w is tgt or _stores_may_share(w, tgt) for w in pool]
            try:
                tgt[idx] = val
                raised = None
            except Exception as e:  # accept / reject is judged by the hook on __setitem__
                raised = e
            ctx.mon.note(f"related:{st[0]}:{st[2] if s[0] == 'nd' else st[3]}:{s[0]}:"
                         f"{'accepted' if raised is None else 'rejected'}")
            if sum(shares) > 1 and raised is None:
                ctx.mon.note("related:accepted-assignment-through-object-sharing-storage")
            for k, (b, w) in enumerate(zip(before, pool)):
                if raised is None and shares[k]:
                    continue
                ok = same_snap(b, snap(w))
                ctx.check("related-bystander", ok, lambda: (
                    f"{when}: wf[{idx!r}] = {_vstr(val) if not isinstance(val, np.ndarray) else val!r} on object "
                    f"{st[1] % len(pool)} ({'raised ' + type(raised).__name__ if raised else 'accepted'}) changed object "
                    f"{k}{'' if shares[k] else ', which shares no storage with it'}: {b and short_entries(b[2])} -> "
                    f"{short_entries((snap(w) or [0, 0, ['?']])[2])}"))
                if not ok:
                    return
            del tgt
        if not _rel_observe(ctx, pool, f"after {when}"):
            return


# ----------------------------------------------------------------------------- histories over factory results
# A *factory* is a way of obtaining a wavefunction whose arguments carry no storage of their own, or whose result
# is specified by the property whatever happened earlier: ``dicke_state(n, k)``, ``zero_state(n)`` (the Dicke state
# of weight 0 is built from it), ``load_wavefunction(file)``, ``w.bind(map)`` on a symbolic ``w``,
# ``flip_wavefunction(w)``, ``Wavefunction(list_or_tuple)``, ``Wavefunction(w.amplitudes)``, ``Wavefunction(w)``.
# Inside one case the same factory is asked several times with equal arguments; in between, the objects it handed
# out (and the objects it reads from) are modified through the public mutator ``wf[idx] = value`` - legal,
# norm-preserving assignments (a support entry exchanged with a non-support entry, weight moved between two entries
# keeping the sum of squares, single phases, all phases, a whole new unit vector; spelled with int, negative,
# numpy-integer, tuple, slice, stepped / negative slice, index list, index array and Ellipsis indices) and illegal
# ones (refused).  Demanded of every answer: what the property says about that factory (Dicke probabilities, the
# file's amplitudes, the substitution, the bit reversal of what the argument holds now, the listed amplitudes), as
# if nothing had happened before.  Demanded of every other object: an assignment to X leaves Y untouched, unless
# X and Y legitimately share storage that came in through the argument (``Wavefunction(w.amplitudes)``,
# ``Wavefunction(w)`` and their source; a flip and its source) - there sharing is observed, never demanded.
# Nothing is undone at the end of a case: what a case leaves behind in module-level state of the library is met by
# the later cases of the same process (every class asks the same small factories again).
_FAC_KINDS = ["dicke", "dicke", "dicke", "dicke", "zero", "load", "load", "bind", "bind", "flip", "ctor_seq",
              "from_amps", "from_wf"]
_FAC_LEGAL = ["swap_out", "swap_out", "move", "move", "rot", "swap", "phase", "phases_all", "whole"]
_FAC_ILLEGAL = ["bad_single", "bad_pair", "bad_bcast", "bad_whole"]
_FAC_PAIR_STYLES = ["slice", "negslice", "list", "array", "neglist", "tuple_list"]
_FAC_ONE_STYLES = ["int", "int", "neg", "neg", "npint", "tuple"]
_FAC_WHOLE_STYLES = ["ellipsis", "ellipsis", "colon", "range", "negrange", "list_all"]


def _fac_vec(rng, n):
    return [complex(_r(z.real), _r(z.imag)) for z in rand_unit_vector(rng, n)]


def _fac_renorm(v):
    """a vector of 6-digit constants is only normalised to ~1e-6: scale the biggest entry's neighbours away"""
    nrm = math.sqrt(math.fsum(abs(z) ** 2 for z in v))
    if nrm == 0:
        return [1.0 + 0j] + [0j] * (len(v) - 1)
    return [z / nrm for z in v]


def _fac_bind_map(rng, ent, total):
    syms = [e for e in ent if isinstance(e, sympy.Symbol)]
    if not total and len(syms) >= 2:
        some = rng.sample(syms, rng.randint(1, len(syms) - 1))
        return {x: _r(0.02 + 0.03 * q + 0.02 * rng.random()) * rng.choice([1, -1, 1j]) for q, x in enumerate(some)}
    rest = 1.0 - math.fsum(abs(_c(e)) ** 2 for e in ent if _is_num(e))
    w = [rng.random() + 0.05 for _ in syms]
    return {x: math.sqrt(max(rest, 0.0) * wx / sum(w)) * rng.choice([1, -1, 1j]) for x, wx in zip(syms, w)}


def _fac_spec(rng, kind):
    if kind == "dicke":
        n = rng.choice([1, 2, 2, 3, 3, 4, 4, 5, 6, 7, 8, 9, 10])
        return {"kind": kind, "n": n, "k": rng.randint(0, n), "kw": rng.random() < 0.25}
    if kind == "zero":
        return {"kind": kind, "n": rng.choice([1, 2, 2, 3, 4, 5, 8, 10])}
    nq = rng.choice([0, 1, 1, 2, 2, 3, 3, 4, 5, 7])
    n = 2**nq
    if kind == "load":
        saved = rng.random() < 0.5
        real_only = not saved and rng.random() < 0.25
        v = _fac_renorm([complex(z.real, 0) for z in rand_unit_vector(rng, n, "real")] if real_only else _fac_vec(rng, n))
        return {"kind": kind, "v": v, "saved": saved, "real_only": real_only}
    if kind == "bind":
        n = rng.choice([2, 4, 4, 8])
        names = rng.sample(SYMBOLS + [f"a{i}" for i in range(8)], n)
        sym_at = set(rng.sample(range(n), rng.randint(1, n - 1)))
        budget = rng.choice([0.0, 0.3, 0.7])
        u = rand_unit_vector(rng, n, "dense")
        ent = [sympy.Symbol(names[i]) if i in sym_at else _r(abs(u[i]) * math.sqrt(budget)) * rng.choice([1, -1, 1j])
               for i in range(n)]
        total = rng.random() < 0.6 or len(sym_at) < 2
        return {"kind": kind, "ent": ent, "total": total, "map": _fac_bind_map(rng, ent, total),
                "as_matrix": rng.random() < 0.3}
    if kind == "flip":
        return {"kind": kind, "v": _fac_renorm(_fac_vec(rng, n)), "column": rng.random() < 0.25}
    if kind == "ctor_seq":
        form = rng.choice(["list", "tuple", "tuple", "real_list"])
        if form == "real_list":
            v = _fac_renorm([complex(_r(z.real), 0) for z in rand_unit_vector(rng, n, "real")])
        else:
            v = _fac_renorm(_fac_vec(rng, n))
        return {"kind": kind, "v": v, "form": form}
    return {"kind": kind, "v": _fac_renorm(_fac_vec(rng, n)), "column": rng.random() < 0.2}


def _fac_neighbour(rng, sp):
    """a second request that agrees with the first in what a too-coarse memo key could look at"""
    kind = sp["kind"]
    if kind == "dicke":
        n, k = sp["n"], sp["k"]
        cand = [(n, kk) for kk in range(n + 1) if kk != k] + [(n + 1, k)] + ([(n - 1, k)] if n - 1 >= max(1, k) else [])
        n2, k2 = rng.choice(cand)
        return {"kind": kind, "n": n2, "k": k2, "kw": rng.random() < 0.25}
    if kind == "bind":
        out = dict(sp)
        out["map"] = _fac_bind_map(rng, sp["ent"], sp["total"])
        if not sp["total"]:
            out["map"] = {x: _r(abs(_c(v)) + 0.01) * rng.choice([1, -1, 1j]) for x, v in sp["map"].items()}
        out["src_of"] = 0  # the same symbolic object is bound with other values for the same symbols
        return out
    out = dict(sp)
    n = len(sp["v"])
    if kind == "load" and sp["real_only"]:
        out["v"] = _fac_renorm([complex(z.real, 0) for z in rand_unit_vector(rng, n, "real")])
    elif kind == "ctor_seq" and sp["form"] == "real_list":
        out["v"] = _fac_renorm([complex(_r(z.real), 0) for z in rand_unit_vector(rng, n, "real")])
    else:
        out["v"] = _fac_renorm(_fac_vec(rng, n))
    return out


def _fac_spec_str(sp):
    kind = sp["kind"]
    if kind == "dicke":
        return f"dicke({sp['n']},{sp['k']}{',kw' if sp['kw'] else ''})"
    if kind == "zero":
        return f"zero({sp['n']})"
    if kind == "bind":
        m = ",".join(f"{k}:{_vstr(v)}" for k, v in sp["map"].items())
        return (f"bind({_vstr(sp['ent'])}{',matrix' if sp['as_matrix'] else ''}{',same-object' if 'src_of' in sp else ''}"
                f";{{{m}}})")
    extra = "".join(f",{k}={sp[k]}" for k in ("saved", "real_only", "column", "form") if k in sp and sp[k])
    return f"{kind}({_vstr(sp['v'])}{extra})"


def _plan_factory(rng, quick):
    kind = rng.choice(_FAC_KINDS)
    specs = [_fac_spec(rng, kind)]
    if kind == "zero":
        specs.append({"kind": "dicke", "n": specs[0]["n"], "k": 0, "kw": rng.random() < 0.25})
    elif rng.random() < 0.55:
        specs.append(_fac_neighbour(rng, specs[0]))
    sizes = []
    for sp in specs:
        sizes.append(2 ** sp["n"] if "n" in sp else len(sp.get("v", sp.get("ent", []))))
    events = [("ask", 0, _r(rng.random()))]
    if rng.random() < 0.6:
        events.append(("ask", 0, _r(rng.random())))
    if len(specs) > 1:
        events.append(("ask", 1, _r(rng.random())))
    for _ in range(rng.randint(4, 9 if quick else 18)):
        r = rng.random()
        si = rng.randrange(len(specs))
        if r < 0.55:
            legal = rng.random() < 0.72
            op = rng.choice(_FAC_LEGAL if legal else _FAC_ILLEGAL)
            whole = _fac_renorm(_fac_vec(rng, sizes[si])) if op == "whole" else None
            t = rng.choice([rng.uniform(0.1, 2 * math.pi - 0.1), rng.uniform(0.1, 3.0), math.pi / 2, math.pi, 1e-3])
            events.append(("edit", si, _r(rng.random()), legal, op,
                           rng.choice(_REL_LEGAL_MAT if legal else _REL_ILLEGAL_MAT), _r(rng.random()), _r(rng.random()),
                           _r(t), rng.choice(_FAC_PAIR_STYLES), rng.choice(_FAC_ONE_STYLES),
                           rng.choice(_FAC_WHOLE_STYLES), rng.choice(_REL_STYLES), whole))
            if legal and rng.random() < 0.5:
                events.append(("ask", si, _r(rng.random())))
        elif r < 0.82:
            events.append(("ask", si, _r(rng.random())))
        elif r < 0.91:
            events.append(("drop", si, _r(rng.random())))
        else:
            events.append(("resave", si, _r(rng.random())))
    for si in range(len(specs)):
        events.append(("ask", si, _r(rng.random())))
    return specs, events


def _fac_describe(specs, events):
    out = []
    for ev in events:
        if ev[0] == "edit":
            w = "" if ev[13] is None else "," + _vstr(ev[13])
            out.append(f"{'legal' if ev[3] else 'illegal'}(f{ev[1]},{ev[2]},{ev[4]}|{ev[5]},{ev[6]},{ev[7]},{ev[8]},"
                       f"{ev[9]}/{ev[10]}/{ev[11]}/{ev[12]}{w})")
        else:
            out.append(f"{ev[0]}(f{ev[1]},{ev[2]})")
    return "hist_factory " + " & ".join(f"f{i}={_fac_spec_str(sp)}" for i, sp in enumerate(specs)) + " :: " + "; ".join(out)


def _fac_edit_nd(ev, s):
    """(index, value) of a planned assignment for a target whose store is the numeric array snapshot ``s``"""
    _, _, _, legal, op, _, u1, u2, t, pstyle, ostyle, wstyle, _, whole = ev
    shape, ent = s[1], s[2]
    n = len(ent)
    two_d = len(shape) == 2

    def col(vals):
        return [[v] for v in vals] if two_d else list(vals)

    def one(i):
        if ostyle == "neg":
            return i - n
        if ostyle == "npint":
            return np.int64(i)
        if ostyle == "tuple":
            return (i, 0) if two_d else (i,)
        return i

    def everything():
        if wstyle == "colon":
            return slice(None)
        if wstyle == "range":
            return slice(0, n)
        if wstyle == "negrange":
            return slice(-n, None)
        if wstyle == "list_all":
            return list(range(n))
        return Ellipsis

    def pair(i, j):
        if pstyle == "slice":
            return slice(i, j + 1, j - i)
        if pstyle == "negslice":
            return slice(i - n, (j + 1 - n) if j + 1 < n else None, j - i)
        if pstyle == "array":
            return np.array([i, j])
        if pstyle == "neglist":
            return [i - n, j - n]
        if pstyle == "tuple_list":
            return ([i, j], 0) if two_d else ([i, j],)
        return [i, j]

    flat_pair = pstyle == "tuple_list" and two_d  # wf[[i, j], 0] takes a flat pair of values
    nz = [i for i, e in enumerate(ent) if abs(e) > 1e-6] or [0]
    zs = [i for i, e in enumerate(ent) if abs(e) <= 1e-6]
    a_pos = nz[min(int(u1 * len(nz)), len(nz) - 1)]
    others = [x for x in range(n) if x != a_pos]
    if op == "whole" and whole is not None and len(whole) == n:
        return everything(), col(whole)
    if op == "phases_all" or (op == "whole"):
        return everything(), col([e * cmath.exp(1j * t * (q + 1)) for q, e in enumerate(ent)])
    if op == "bad_whole":
        return everything(), _r(0.9 + 0.5 * u2)
    if op == "bad_single" or (not others and not legal):
        return one(a_pos), (abs(ent[a_pos]) + 0.3 + 0.5 * u2) * (1 if u1 < 0.5 else 1j)
    if not others or op == "phase":
        return one(a_pos), ent[a_pos] * cmath.exp(1j * t)
    cand = zs if (op == "swap_out" and zs) else others
    b_pos = cand[min(int(u2 * len(cand)), len(cand) - 1)]
    i, j = min(a_pos, b_pos), max(a_pos, b_pos)
    a, b = ent[i], ent[j]
    shape_vals = (lambda vals: list(vals)) if flat_pair else col
    if op in ("swap", "swap_out"):
        return pair(i, j), shape_vals([b, a])
    if op == "move":
        m = math.sqrt(abs(a) ** 2 + abs(b) ** 2)
        return pair(i, j), shape_vals([0.0, m] if u2 < 0.5 else [m * cmath.exp(1j * t), 0.0])
    if op == "rot":
        return pair(i, j), shape_vals([math.cos(t) * a - math.sin(t) * b, math.sin(t) * a + math.cos(t) * b])
    if op == "bad_pair":
        return pair(i, j), shape_vals([_r(0.55 + 0.4 * u1), _r(-0.55 - 0.4 * u2)])
    return slice(i, None), _r(0.75 + 0.2 * u2)  # bad_bcast


def _fac_expected(st, states):
    """what the property says the factory must answer now: ('probs' | 'amps', values, tolerance) or None"""
    sp = st["spec"]
    kind = sp["kind"]
    if kind == "dicke":
        n, k = sp["n"], sp["k"]
        p = 1.0 / math.comb(n, k)
        return "probs", [p if bin(i).count("1") == k else 0.0 for i in range(2**n)], 1e-12
    if kind == "zero":
        return None  # the property names no zero-state constructor: only the invariant (judged at the constructor)
    if kind == "load":
        return "amps", list(st["file_v"]), (0.0 if sp["saved"] else 1e-12)
    if kind == "ctor_seq":
        return "amps", list(sp["v"]), 1e-12
    s = snap(_fac_src(st, states))
    if s is None:
        return None
    if kind == "bind":
        if s[0] != "mat":
            return "amps", list(s[2]), 0.0
        try:
            exp = _subs_entries(s[2], sp["map"])
        except Exception:
            return None
        if judge(exp) != "ok" or any(isinstance(e, sympy.Basic) and e.has(sympy.nan, sympy.zoo) for e in exp):
            return None
        return "amps", exp, 1e-12
    if kind == "flip":
        n = len(s[2])
        rev = L.bit_reversal_perm(n.bit_length() - 1)
        return "amps", [s[2][rev[i]] for i in range(n)], 0.0
    return "amps", list(s[2]), 0.0  # from_amps, from_wf


def _fac_src(st, states):
    return states[st["spec"]["src_of"]]["src"] if "src_of" in st["spec"] else st["src"]


def _fac_write(st, ctx):
    """(re)write the file of a 'load' request; remembers what the file holds"""
    from orquestra.quantum.wavefunction import save_wavefunction

    sp = st["spec"]
    if sp["saved"]:
        s = snap(st["src"])
        save_wavefunction(st["src"], st["path"])
        st["file_v"] = list(s[2])
        return
    v = sp["v"]
    data = {"amplitudes": {"real": [z.real for z in v]}}
    if not sp["real_only"]:
        data["amplitudes"]["imag"] = [z.imag for z in v]
    with open(st["path"], "w") as f:
        json.dump(data, f)
    st["file_v"] = [complex(z) for z in v]


def _fac_ask(ctx, st, states, u):
    """one more request to the factory: (object or None, exception or None)"""
    from orquestra.quantum.wavefunction import Wavefunction, flip_wavefunction, load_wavefunction

    sp = st["spec"]
    kind = sp["kind"]
    try:
        if kind == "dicke":
            if sp["kw"]:
                return Wavefunction.dicke_state(n_qubits=sp["n"], hamming_weight=sp["k"]), None
            return Wavefunction.dicke_state(sp["n"], sp["k"]), None
        if kind == "zero":
            return Wavefunction.zero_state(sp["n"]), None
        if kind == "load":
            if u < 0.5:
                return load_wavefunction(st["path"]), None
            with open(st["path"]) as f:
                if u < 0.75:
                    return load_wavefunction(f), None
                return load_wavefunction(io.StringIO(f.read())), None
        if kind == "ctor_seq":
            return Wavefunction(st["arg"]), None
        src = _fac_src(st, states)
        if kind == "bind":
            return src.bind(dict(sp["map"])), None
        if kind == "flip":
            return flip_wavefunction(src), None
        if kind == "from_amps":
            return Wavefunction(src.amplitudes), None
        return Wavefunction(src), None
    except Exception as e:  # the hooks judge refusals; the driver only records them
        return None, e


def _run_factory(ctx):
    from orquestra.quantum.wavefunction import Wavefunction

    global _TMP
    rng = ctx.rng
    specs, events = _plan_factory(rng, ctx.quick)
    seen_legal = set()
    reask = False
    for ev in events:
        if ev[0] == "edit" and ev[3]:
            seen_legal.add(ev[1])
        elif ev[0] == "ask" and ev[1] in seen_legal:
            reask = True
    ctx.describe(_fac_describe(specs, events)[:6000],
                 reask and any(ev[0] == "edit" and not ev[3] for ev in events))
    if _TMP is None:
        _TMP = tempfile.mkdtemp(prefix="rv-c12-")

    states = []
    paths = []
    try:
        for i, sp in enumerate(specs):
            st = {"spec": sp, "objs": [], "src": None, "arg": None, "path": None, "file_v": None}
            kind = sp["kind"]
            if kind == "load":
                st["path"] = os.path.join(_TMP, f"fac{ctx.index}_{i}.json")
                paths.append(st["path"])
                if sp["saved"]:
                    st["src"] = Wavefunction(list(sp["v"]))
                _fac_write(st, ctx)
            elif kind == "bind" and "src_of" not in sp:
                st["src"] = Wavefunction(sympy.Matrix(sp["ent"]) if sp["as_matrix"] else list(sp["ent"]))
            elif kind in ("flip", "from_amps", "from_wf"):
                n = len(sp["v"])
                st["src"] = Wavefunction(np.array(sp["v"], dtype=complex).reshape(n, 1) if sp["column"] else list(sp["v"]))
            elif kind == "ctor_seq":
                vals = [z.real for z in sp["v"]] if sp["form"] == "real_list" else list(sp["v"])
                st["arg"] = tuple(vals) if sp["form"] == "tuple" else vals
                st["arg_copy"] = list(vals)
            states.append(st)
        _fac_events(ctx, states, events)
    finally:
        for p in paths:
            if os.path.exists(p):
                os.remove(p)


def _fac_tracked(states):
    """every live object of the case once: (label, object, state index, is_source)"""
    out, ids = [], set()
    for i, st in enumerate(states):
        for q, w in enumerate([st["src"]] + st["objs"]):
            if w is not None and id(w) not in ids:
                ids.add(id(w))
                out.append((f"f{i}.{'source' if q == 0 else 'result%d' % (q - 1)}", w, i, q == 0))
    return out


def _fac_by_design(states, x, y):
    """may an assignment through x show in y?  Only where storage came in through the argument of the request."""
    kx, ky = states[x[2]]["spec"]["kind"], states[y[2]]["spec"]["kind"]
    if x[2] != y[2] or not _stores_may_share(x[1], y[1]):
        return False
    if kx in ("from_amps", "from_wf"):
        return True
    if kx == "flip":
        return x[3] or y[3]
    return False


def _fac_events(ctx, states, events):
    for num, ev in enumerate(events):
        st = states[ev[1]]
        sp = st["spec"]
        kind = sp["kind"]
        when = f"event {num} {ev[0]}(f{ev[1]})"
        tracked = _fac_tracked(states)
        before = [snap(t[1]) for t in tracked]
        target = None
        accepted = False
        what = ev[0]
        if ev[0] == "resave" and not (kind == "load" and sp["saved"]):
            what = "ask"
        if ev[0] in ("edit", "drop"):
            cands = [t for t in tracked if t[2] == ev[1] or ("src_of" in sp and t[2] == sp["src_of"] and t[3])]
            if not cands:
                what = "ask"
        if what == "ask":
            exp = _fac_expected(st, states)
            new, exc = _fac_ask(ctx, st, states, ev[2])
            ctx.mon.note(f"factory:{kind}:ask:{'ok' if exc is None else type(exc).__name__}")
            if exc is not None:
                if kind != "bind":
                    ctx.check("factory-fresh", False, f"{when}: {_fac_spec_str(sp)[:300]} raised {exc!r}")
                    return
            elif any(new is t[1] for t in tracked):
                ctx.mon.note(f"factory:{kind}:returned-an-existing-object")
            else:
                s = snap(new)
                ok = s is not None and judge(s[2]) != "bad"
                detail = None
                if ok and exp is not None:
                    if exp[0] == "probs":
                        got = [abs(_c(e)) ** 2 if _is_num(e) else None for e in s[2]]
                        ok = len(got) == len(exp[1]) and all(g is not None and abs(g - p) <= exp[2] for g, p in zip(got, exp[1]))
                        detail = f"probabilities {short_entries(got)} instead of {short_entries(exp[1])}"
                    else:
                        ok = entries_close(s[2], exp[1], tol=exp[2])
                        detail = f"amplitudes {short_entries(s[2])} instead of {short_entries(exp[1])}"
                ctx.check("factory-fresh", ok, lambda: (
                    f"{when}: {_fac_spec_str(sp)[:300]} answered with "
                    f"{detail or (s and short_entries(s[2]))} after the earlier events of this case"))
                if not ok:
                    return
                new.get_probabilities()  # judged by the hook against the object's own store
                if any(_stores_may_share(new, t[1]) for t in tracked):
                    ctx.mon.note(f"factory:{kind}:answer-shares-storage-with-a-live-object")
                st["objs"].append(new)
                if len(st["objs"]) > 4:
                    del st["objs"][1]
            del new
        elif what == "resave":
            _fac_write(st, ctx)
            ctx.mon.note("factory:load:file-rewritten-from-its-source")
        elif what == "drop":
            pick = cands[min(int(ev[2] * len(cands)), len(cands) - 1)]
            if not pick[3]:
                states[pick[2]]["objs"] = [w for w in states[pick[2]]["objs"] if w is not pick[1]]
                ctx.mon.note(f"factory:{kind}:dropped-a-result")
            del pick
        else:
            pick = cands[min(int(ev[2] * len(cands)), len(cands) - 1)]
            target = pick
            s = snap(pick[1])
            if s is None:
                return
            if s[0] == "nd":
                idx, val = _fac_edit_nd(ev, s)
            else:
                idx, val = _rel_step_mat(("legal" if ev[3] else "illegal", 0, None, ev[5], ev[6], ev[7], ev[8], ev[12], None), s)
            try:
                pick[1][idx] = val
                accepted = True
                raised = None
            except Exception as e:  # accept / reject is judged by the hook on __setitem__
                raised = e
            ctx.mon.note(f"factory:{kind}:{'source' if pick[3] else 'result'}:{ev[4] if s[0] == 'nd' else ev[5]}:"
                         f"{_index_kind(s, idx)}:{'accepted' if accepted else 'rejected'}")
            del pick
        # nobody but the target of an accepted assignment may have changed
        for t, b in zip(tracked, before):
            if target is not None and t[1] is target[1] and accepted:
                continue
            if target is not None and accepted and _fac_by_design(states, target, t):
                ctx.mon.note("factory:assignment-seen-through-storage-shared-by-design")
                continue
            now = snap(t[1])
            ok = same_snap(b, now)
            ctx.check("factory-bystander", ok, lambda: (
                f"{when}"
                + (f": wf[{idx!r}] = {_vstr(val)} on {target[0]} "
                   f"({'accepted' if accepted else 'raised ' + type(raised).__name__})" if target is not None else "")
                + f" changed {t[0]} of {_fac_spec_str(states[t[2]]['spec'])[:200]}: {b and short_entries(b[2])} -> "
                  f"{now and short_entries(now[2])}"))
            if not ok:
                return
        for i, s2 in enumerate(states):
            if s2["arg"] is not None:
                ok = list(s2["arg"]) == s2["arg_copy"]
                ctx.check("factory-bystander", ok, lambda: f"{when} changed the caller's sequence given to Wavefunction(...)")
                if not ok:
                    return
        del tracked, target


def _ctor_case(ctx):
    from orquestra.quantum.wavefunction import Wavefunction

    rng = ctx.rng
    kind = rng.choice(["valid", "valid_sym", "badlen", "badlen_sym", "unnorm", "edge_ok", "edge_bad", "sym_exceeds",
                       "zeros", "ints", "sym_all", "big", "sym_numbers"])
    n = rng.choice([1, 2, 4, 8, 16, 32])
    container = rng.choice(["list", "tuple", "ndarray", "column", "matrix"])
    expect = None
    if kind in ("valid", "unnorm", "edge_ok", "edge_bad", "zeros", "ints", "big", "sym_numbers"):
        if kind == "big":
            n = rng.choice([256, 1024])
        if kind in ("unnorm", "edge_bad", "valid") and ctx.index % 7 == 6:
            # registers of 14 - 17 qubits: "sums to 1" means the same at every size (an allowance that grows with the
            # number of amplitudes swallows an excess of 1e-4 .. 1e-2 up here)
            n = 2 ** rng.choice([14, 15, 16, 17])
            container = "ndarray"
            ctx.mon.note("ctor:large-register")
            import numpy as _np

            arr = _np.asarray(ctx.nprng.normal(size=n) + 1j * ctx.nprng.normal(size=n))
            arr = arr / _np.linalg.norm(arr)
            f = {"valid": 1.0, "edge_bad": math.sqrt(1 + rng.choice([3e-5, -3e-5, 1e-4])),
                 "unnorm": rng.choice([1.0005, 0.9995, 1.005, 1.05, 0.9])}[kind]
            arr = arr * f
            ctx.describe(f"ctor large n={n} kind={kind} factor={f!r}", True)
            try:
                Wavefunction(arr)
                accepted = True
            except ValueError:
                accepted = False
            ctx.check("ctor-large-register", accepted == (kind == "valid"),
                      lambda: f"{n} amplitudes whose squared magnitudes sum to {f * f!r}: " + ("accepted" if accepted else "rejected"))
            return
        v = rand_unit_vector(rng, n)
        if kind == "unnorm":
            f = rng.choice([0.5, 0.9, 0.99, 1.01, 1.5, 3.0, 0.0])
            v = [x * f for x in v]
        elif kind in ("edge_ok", "edge_bad"):
            d = rng.choice([5e-6, -5e-6]) if kind == "edge_ok" else rng.choice([2e-5, -2e-5, 1.2e-5])
            v = [x * math.sqrt(1 + d) for x in v]
        elif kind == "zeros":
            v = [0.0] * n
        elif kind == "ints":
            v = [0] * n
            v[rng.randrange(n)] = rng.choice([1, -1, 2, 1j])
        ent = v
        if kind == "sym_numbers":
            k = rng.randrange(1, 5)
            n = 2 ** rng.randint(0, 3)
            ent = [sympy.sqrt(sympy.Rational(1, n))] * n if k < 3 else [sympy.Rational(1, 2)] * n
            container = "list"
    elif kind in ("badlen", "badlen_sym"):
        n = rng.choice([0, 3, 5, 6, 7, 9, 12, 17, 1000])
        if kind == "badlen":
            ent = rand_unit_vector(rng, n) if n else []
        else:
            ent = [rand_sym_entry(rng) for _ in range(n)]
            container = rng.choice(["list", "matrix"]) if n else "list"
    else:
        n = rng.choice([1, 2, 4, 8])
        pool = rng.sample(SYMBOLS, 2)
        if kind == "sym_all":
            ent = [rand_sym_entry(rng, pool) for _ in range(n)]
        else:
            k = rng.randint(1, n)
            at = set(rng.sample(range(n), k))
            total = rng.uniform(0.0, 0.95) if kind == "valid_sym" else rng.uniform(1.05, 2.5)
            if kind == "sym_exceeds" and k == n:
                at = set(list(at)[:-1]) if n > 1 else set()
            u = rand_unit_vector(rng, n, "dense")
            m = math.sqrt(sum(abs(u[i]) ** 2 for i in range(n) if i not in at)) or 1.0
            ent = [rand_sym_entry(rng, pool) if i in at else rand_num_entry_value(rng, _r(abs(u[i]) / m * math.sqrt(total)))
                   for i in range(n)]
        container = rng.choice(["list", "tuple", "matrix"])
    if container == "ndarray" and all(_is_num(e) for e in ent):
        if all(_c(e).imag == 0 for e in ent) and rng.random() < 0.4:
            arg = np.array([_c(e).real for e in ent], dtype=float)
        else:
            arg = np.array([_c(e) for e in ent], dtype=complex)
    elif container == "column" and all(_is_num(e) for e in ent) and len(ent):
        arg = np.array([_c(e) for e in ent], dtype=complex).reshape(len(ent), 1)
    elif container == "matrix" and len(ent):
        arg = sympy.Matrix([e if isinstance(e, sympy.Basic) else sympy.sympify(e) for e in ent])
    elif container == "tuple":
        arg = tuple(ent)
    else:
        arg = list(ent)
    ent_model = list(ent)
    pow2 = len(ent_model) >= 1 and len(ent_model) & (len(ent_model) - 1) == 0
    j = judge(ent_model) if pow2 else "bad"
    ctx.describe(f"ctor {kind} {container} n={len(ent_model)} {short_entries(ent_model, 400)} expect={j}", False)
    try:
        wf = Wavefunction(arg)
    except Exception as e:
        ctx.mon.note(f"ctor-case:{kind}:raised:{type(e).__name__}")
        if j == "ok" and kind in ("valid", "valid_sym", "sym_all", "big", "ints", "sym_numbers", "edge_ok"):
            ctx.check("ctor-accepts-valid", False, f"Wavefunction({short_entries(ent_model)}) raised {e!r}")
        return
    ctx.mon.note(f"ctor-case:{kind}:accepted")
    if j == "ok":
        ctx.check("ctor-accepts-valid", True)
        # the object is usable: probabilities are defined and consistent (judged by the hook)
        wf.get_probabilities()
        len(wf)


_DICKE_SPACE = [(n, k) for n in range(1, 11) for k in range(0, n + 1)]


def _dicke_case(ctx):
    from orquestra.quantum.wavefunction import Wavefunction

    if ctx.index >= len(_DICKE_SPACE):
        raise Exhausted()
    n, k = _DICKE_SPACE[ctx.index]
    ctx.describe(f"dicke n={n} k={k}", False)
    wf = Wavefunction.dicke_state(n, k) if ctx.rng.random() < 0.7 else Wavefunction.dicke_state(n_qubits=n, hamming_weight=k)
    p = wf.get_probabilities()
    ctx.check("dicke-probabilities", abs(float(np.sum(p)) - 1) < 1e-12 and int(np.count_nonzero(p)) == math.comb(n, k),
              lambda: f"dicke({n},{k}) probabilities: sum {float(np.sum(p))!r}, support {int(np.count_nonzero(p))}")


def _dicke_invalid_case(ctx):
    from orquestra.quantum.wavefunction import Wavefunction

    rng = ctx.rng
    n = rng.choice([1, 2, 3, 5, 10])
    kind = rng.choice(["neg", "too_big", "frac", "float_int", "n_zero", "n_neg", "way_too_big"])
    if kind == "neg":
        k = -rng.randint(1, 3)
    elif kind == "too_big":
        k = n + 1
    elif kind == "way_too_big":
        k = n + rng.randint(2, 40)
    elif kind == "frac":
        k = rng.randint(0, n) + rng.choice([0.5, 0.36, 1e-9])
    elif kind == "float_int":
        k = float(rng.randint(0, n))
    elif kind == "n_zero":
        n, k = 0, 0
    else:
        n, k = -rng.randint(1, 3), rng.randint(0, 2)
    ctx.describe(f"dicke_invalid {kind} n={n} k={k!r}", False)
    try:
        Wavefunction.dicke_state(n, k)
    except Exception as e:
        ctx.mon.note(f"dicke-invalid:{kind}:{type(e).__name__}")


def _flip_case(ctx):
    from orquestra.quantum.wavefunction import Wavefunction, flip_amplitudes, flip_wavefunction

    rng = ctx.rng
    nq = rng.choice([0, 1, 2, 3, 4, 5, 6, 7, 8, 9, 10]) if not ctx.quick else rng.choice([0, 1, 2, 3, 4, 5, 6, 8, 10])
    n = 2**nq
    kind = rng.choice(["wf", "raw_list", "raw_array", "raw_labels", "wf_sym", "column"])
    ctx.describe(f"flip {kind} nq={nq} case={ctx.index}", False)
    if kind in ("wf", "column"):
        v = rand_unit_vector(rng, n, rng.choice(["dense", "sparse", "basis"]))
        arg = np.array(v, dtype=complex).reshape(n, 1) if kind == "column" else list(v)
        wf = Wavefunction(arg)
        f = flip_wavefunction(wf)
        g = flip_wavefunction(f)
        a, b = snap(g)[2], [complex(x) for x in v]
        ctx.check("flip-involution", entries_close(a, b), lambda: f"flip(flip(v)) != v for nq={nq}")
        return
    if kind == "wf_sym":
        nq = min(nq, 3)
        n = 2**nq
        ent = [rand_sym_entry(rng) if rng.random() < 0.6 else _r(rng.uniform(-0.3, 0.3)) / math.sqrt(n) for _ in range(n)]
        if all(_is_num(e) for e in ent):
            ent[0] = sympy.Symbol("alpha")
        wf = Wavefunction(ent)
        f = flip_wavefunction(wf)
        g = flip_wavefunction(f)
        ctx.check("flip-involution", entries_close(snap(g)[2], snap(wf)[2]), lambda: f"flip(flip(v)) != v for {ent}")
        return
    if kind == "raw_labels":
        v = list(range(n))  # distinct labels: any permutation error is visible
    else:
        v = [complex(rng.gauss(0, 1), rng.gauss(0, 1)) for _ in range(n)]
    arg = np.array(v) if kind != "raw_list" else list(v)
    out = flip_amplitudes(arg)
    back = flip_amplitudes(out)
    ctx.check("flip-involution", list(np.asarray(back).flatten()) == list(np.asarray(v).flatten()),
              lambda: f"flip(flip(v)) != v for {kind} nq={nq}")


def _saveload_case(ctx):
    from orquestra.quantum.wavefunction import Wavefunction, load_wavefunction, save_wavefunction

    global _TMP
    if _TMP is None:
        _TMP = tempfile.mkdtemp(prefix="rv-c12-")
    rng = ctx.rng
    kind = rng.choice(["dense", "real", "column", "dicke", "bound", "tiny", "assigned_numbers", "symbolic",
                       "load_unnormalised", "load_badlen", "load_real_only"])
    nq = rng.choice([0, 1, 2, 3, 4, 6, 10]) if kind in ("dense", "real") else rng.choice([1, 2, 3])
    n = 2**nq
    path = os.path.join(_TMP, f"wf{ctx.index}.json")
    ctx.describe(f"saveload {kind} nq={nq} case={ctx.index}", False)
    try:
        if kind.startswith("load_"):
            v = rand_unit_vector(rng, n)
            if kind == "load_unnormalised":
                v = [x * rng.choice([0.5, 1.2, 0.0]) for x in v]
            elif kind == "load_badlen":
                v = rand_unit_vector(rng, rng.choice([3, 5, 6]))
            data = {"amplitudes": {"real": [x.real for x in v]}}
            if kind != "load_real_only":
                data["amplitudes"]["imag"] = [x.imag for x in v]
            else:
                v = [complex(x.real, 0) for x in rand_unit_vector(rng, n, "real")]
                data = {"amplitudes": {"real": [x.real for x in v]}}
            with open(path, "w") as f:
                json.dump(data, f)
            try:
                back = load_wavefunction(path) if rng.random() < 0.5 else load_wavefunction(io.StringIO(json.dumps(data)))
            except Exception as e:
                ctx.mon.note(f"saveload:{kind}:load-raised:{type(e).__name__}")
                ctx.check("load-valid-file", kind != "load_real_only", f"loading {data} raised {e!r}")
                return
            s = snap(back)
            ctx.check("save-load", s is not None and entries_close(s[2], [complex(x) for x in v]),
                      lambda: f"file {data} loaded as {s and short_entries(s[2])}")
            return
        if kind == "dicke":
            wf = Wavefunction.dicke_state(nq, rng.randint(0, nq))
        elif kind == "column":
            wf = Wavefunction(np.array(rand_unit_vector(rng, n), dtype=complex).reshape(n, 1))
        elif kind == "bound":
            a, b = sympy.Symbol("alpha"), sympy.Symbol("beta")
            wf = Wavefunction([a, 0.5, b, 0.5]).bind({a: 0.5, b: rng.choice([0.5, -0.5, 0.5j])})
        elif kind == "tiny":
            v = [0j] * n
            v[0] = 1.0
            if n > 1:
                v[1] = complex(1e-200, -5e-324)
                v[-1] = complex(-0.0, 1e-170)
            wf = Wavefunction(v)
        elif kind == "assigned_numbers":
            a, b = sympy.Symbol("alpha"), sympy.Symbol("beta")
            wf = Wavefunction([a, 0.5, b, 0.5])
            wf[0] = rng.choice([0.5, -0.5, 0.5j])
            wf[2] = 0.5
        elif kind == "symbolic":
            wf = Wavefunction([sympy.Symbol("alpha"), 0.5, sympy.Symbol("beta"), 0.5])
        elif kind == "real":
            wf = Wavefunction([x.real for x in rand_unit_vector(rng, n, "real")])
        else:
            wf = Wavefunction(rand_unit_vector(rng, n))
        before = snap(wf)
        try:
            save_wavefunction(wf, path)
        except Exception as e:
            if kind == "symbolic":
                ctx.mon.note(f"saveload:symbolic-save-refused:{type(e).__name__}")  # nothing numeric to store
                return
            ctx.check("save-raises" + (":symbol-free-matrix-store" if before[0] == "mat" else ""), False,
                      f"save_wavefunction raised {e!r} for a symbol-free wavefunction ({kind}; store = "
                      f"{before[0]}{before[1]}) {short_entries(before[2])}")
            return
        if kind == "symbolic":
            ctx.mon.note("saveload:symbolic-save-accepted")
            return
        ctx.check("save-load", same_snap(before, snap(wf)), "save_wavefunction changed its argument")
        with open(path) as f:
            json.load(f)
        how = rng.choice(["path", "handle", "stringio"])
        if how == "path":
            back = load_wavefunction(path)
        elif how == "handle":
            with open(path) as f:
                back = load_wavefunction(f)
        else:
            with open(path) as f:
                back = load_wavefunction(io.StringIO(f.read()))
        s = snap(back)
        ctx.check("save-load", s is not None and entries_close(s[2], before[2], tol=0.0),
                  lambda: f"saved {short_entries(before[2])} loaded {s and short_entries(s[2])}")
    finally:
        if os.path.exists(path):
            os.remove(path)


def _simulator_case(ctx):
    from orquestra.quantum.circuits import CNOT, RX, RY, RZ, Circuit, H, X, Z
    from orquestra.quantum.runners import SymbolicSimulator

    rng = ctx.rng
    nq = rng.randint(1, 3)
    ops = []
    for _ in range(rng.randint(1, 5)):
        g = rng.choice(["X", "H", "RX", "RY", "CNOT", "Z", "RZ"])
        if g == "CNOT":
            if nq < 2:
                continue
            a, b = rng.sample(range(nq), 2)
            ops.append((g, None, (a, b)))
        elif g in ("RX", "RY", "RZ"):
            ops.append((g, _r(rng.uniform(-3, 3)), (rng.randrange(nq),)))
        else:
            ops.append((g, None, (rng.randrange(nq),)))
    sym_ops = []
    names = rng.sample(["theta", "phi", "gamma"], rng.randint(0, 2))
    for nm in names:
        sym_ops.append((rng.choice(["RX", "RY"]), sympy.Symbol(nm), (rng.randrange(nq),)))
    table = {"X": X, "H": H, "Z": Z, "CNOT": CNOT, "RX": RX, "RY": RY, "RZ": RZ}
    ctx.describe(f"simulator nq={nq} ops={ops} sym={[(g, str(p), q) for g, p, q in sym_ops]}", False)
    gates = []
    for g, p, q in ops + sym_ops:
        gates.append(table[g](*q) if p is None else table[g](p)(*q))
    if not gates:
        gates = [X(0)]
    circ = Circuit(gates, n_qubits=nq)
    wf = SymbolicSimulator().get_wavefunction(circ)
    if names:
        vals = {sympy.Symbol(nm): _r(rng.uniform(-3, 3)) for nm in names}
        part = dict(list(vals.items())[:1])
        w1 = wf.bind(part)
        w2 = w1.bind(vals)
        s = snap(w2)
        ctx.check("simulated-then-bound-normalised", s is not None and judge(s[2]) == "ok",
                  lambda: f"bound simulator state {s and short_entries(s[2])}")
    wf.get_probabilities()


def run_case(ctx):
    cls = ctx.cls
    if cls == "hist_related":
        return _run_related(ctx)
    if cls == "hist_factory":
        return _run_factory(ctx)
    if cls.startswith("hist_"):
        return _run_history(ctx, cls)
    if cls == "ctor":
        return _ctor_case(ctx)
    if cls == "dicke":
        return _dicke_case(ctx)
    if cls == "dicke_invalid":
        return _dicke_invalid_case(ctx)
    if cls == "flip":
        return _flip_case(ctx)
    if cls == "saveload":
        return _saveload_case(ctx)
    if cls == "simulator":
        return _simulator_case(ctx)
    raise ValueError(cls)


def finish(mon, res):
    global _TMP
    if _TMP and os.path.isdir(_TMP):
        import shutil

        shutil.rmtree(_TMP, ignore_errors=True)
        _TMP = None
