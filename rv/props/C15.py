"""C15 - estimation returns one correctly weighted result per task, in task order.

Post-condition hooks on the five estimation entry points.  Every oracle reads the
observed arguments through public attributes only (operator terms, circuit
operations, shot numbers) and recomputes the expected answer from scratch:
constants by summing coefficients, basis-state estimates from the X/I bit
pattern, sampled estimates from the shots the (recording) runner delivered,
exact values from an own state-vector simulation with textbook gate matrices
and index-arithmetic Pauli application, bindings by own substitution.
"""
import itertools
import math

import numpy as np

from ..core import Exhausted
from ..gen import estimation as G
from ..ref import stats as S

ID = "C15"
LEVEL = "exploration"
TECHNIQUE = "post-condition hooks on the estimation entry points with from-scratch oracles; exhaustive task-kind sequences"
RULE = (
    "task lists built by input class: ALL sequences over {measured, constant, zero-shot} of length 0..4 (quick) / "
    "0..6 (thorough) [exhaustive], random longer lists (5-30 / 5-60 tasks, each also re-run permuted), "
    "superposition circuits judged against the shots a recording runner delivered, direct calls of the "
    "non-measured/split helpers, exact expectation values of random circuits (18 gate kinds, <=5 qubits) with "
    "general Pauli operators, per-task symbol binding; every (task, term) has its own dyadic coefficient so a "
    "misplaced result is visible; in about half of the random lists tasks are ALIASED the way real lists are (groups of "
    "tasks holding the same circuit object, the same operator object, being one and the same task object, or equal "
    "separately built copies; for bind also one dict object as the map of several tasks, and a second call on the same "
    "task objects after the map dicts were changed in place); constant operators come as term, one-term sum, un-simplified multi-term sum, "
    "empty sum and zero; basis-state circuits are shuffled X/I/XX patterns at least as wide as the operator; "
    "shots 1-50; a case is non-trivial when its list mixes at least two task kinds (for exact/bind: >=2 tasks "
    "with distinct circuits/maps); distinct = distinct canonical case strings"
)
ASSUMPTIONS = [
    "operators of measured tasks are Ising with real dyadic coefficients, no wider than the circuit; shot numbers are Python ints >= 0",
    "tolerance 1e-12 relative where the arithmetic is exact (constants, basis states, shot averages), 1e-9 for exact expectation values",
    "reference for exact values: own state-vector simulation (textbook matrices, rv.ref.linalg.embed) and Pauli strings applied by index arithmetic; the empty sum is not used there (get_sparse_operator of the empty sum is a C09 matter)",
    "symbol maps are lists with one dict of Python numbers per task (the docstring's 'one map for all tasks' form is outside the property)",
    "correlations / covariances of the results are not judged (C10)",
]
DECIDING = ["averaging", "split", "non_measured", "exact", "bind", "permutation-equivariance"]
BRANCHES = ["non_measured:constant", "non_measured:zero_shot", "averaging:measured", "split:not_measured", "split:measured"]
EXHAUSTIVE = {"kinds_exh": "all sequences of task kinds {measured, constant, zero-shot} of length 0..4 (quick) / 0..6 (thorough)"}
BUDGET = {"quick": (4, 20, 900), "thorough": (16, 150, 1000000)}

SIM_NAMES = {"SymbolicSimulator", "PartialNativeSim", "DefaultPredicateSim"}


def classes(tier):
    return ["kinds_exh", "random_long", "superposition", "non_measured_direct", "exact", "bind", "sweep"]


# ----------------------------------------------------------------------------- reading library objects
def _terms(op):
    return [(tuple(sorted(t.operations)), t.coefficient) for t in op.terms]


def _is_op(op):
    return type(op).__name__ in ("PauliTerm", "PauliSum")


def _circ_view(circuit):
    """[(name, qubits, params)] or None if some operation is not a plain gate operation"""
    out = []
    for o in circuit.operations:
        g = getattr(o, "gate", None)
        if g is None or type(g).__name__ != "MatrixFactoryGate":
            return None
        out.append((g.name, tuple(o.qubit_indices), tuple(g.params)))
    return out


def _bits(view, n):
    bits = [0] * n
    for name, qs, _p in view:
        if name == "X":
            bits[qs[0]] ^= 1
        elif name != "I":
            return None
    return tuple(bits)


def _real(c):
    try:
        return abs(complex(c).imag) == 0
    except Exception:
        return False


class _TV:
    """what the oracle knows about one estimation task"""

    __slots__ = ("kind", "terms", "const", "shots", "bits", "n", "view", "form", "width", "ising")


def _task_view(task):
    try:
        op, circ, shots = task.operator, task.circuit, task.number_of_shots
        if not _is_op(op) or type(circ).__name__ != "Circuit":
            return None
        if not isinstance(shots, int) or isinstance(shots, bool) or shots < 0:
            return None
        v = _TV()
        v.terms = _terms(op)
        v.shots = shots
        v.n = circ.n_qubits
        v.view = _circ_view(circ)
        v.form = f"{type(op).__name__}[{len(v.terms)}]"
        v.width = max([q + 1 for ops, _c in v.terms for q, _o in ops] or [0])
        v.ising = all(o == "Z" for ops, _c in v.terms for _q, o in ops)
        if all(len(ops) == 0 for ops, _c in v.terms):
            v.kind = "constant"
            v.const = sum(c for _o, c in v.terms) if v.terms else 0
        elif shots == 0:
            v.kind = "zeroshot"
            v.const = None
        else:
            v.kind = "measured"
            v.const = None
            if not v.ising or v.width > v.n or not all(_real(c) for _o, c in v.terms) or circ.free_symbols:
                return None
        v.bits = _bits(v.view, v.n) if v.view is not None else None
        return v
    except Exception:
        return None


def _vals(r):
    return np.asarray(r.values).ravel()


def _close(a, b, tol=1e-12):
    try:
        return bool(abs(complex(a) - complex(b)) <= tol * max(1.0, abs(complex(b))))
    except Exception:
        return False


def _vec_close(a, b, tol=1e-12):
    return len(a) == len(b) and all(_close(x, y, tol) for x, y in zip(a, b))


def _tdesc(v, i):
    return f"task #{i} ({v.kind}, {v.form}, shots={v.shots}, terms={[(''.join(f'{o}{q}' for q, o in ops) or 'I', c) for ops, c in v.terms][:5]})"


def _expected_vector(v, delivered=None):
    """expected values of one task, or None when nothing exact is known"""
    if v.kind == "constant":
        return [v.const]
    if v.kind == "zeroshot":
        return [0.0]
    if v.bits is not None:
        return [c * S.term_value([q for q, _o in ops], v.bits) for ops, c in v.terms]
    if delivered is not None:
        shots = [tuple(int(x) for x in b) for b in delivered.bitstrings]
        out = []
        for ops, c in v.terms:
            s = 0
            for shot in shots:
                s += S.term_value([q for q, _o in ops], shot)
            out.append(c * s / len(shots))
        return out
    return None


# ----------------------------------------------------------------------------- monitors
def _pre_avg(mon, call):
    runner = call.args[0] if call.args else call.kwargs.get("runner")
    return len(runner.batches) if isinstance(runner, G.RecordingRunner) else None


def _post_avg(mon, call):
    name = "averaging"
    runner = call.args[0] if call.args else call.kwargs.get("runner")
    tasks = call.args[1] if len(call.args) > 1 else call.kwargs.get("estimation_tasks")
    try:
        tasks = list(tasks)
    except Exception:
        mon.out_of_domain(name)
        return
    views = [_task_view(t) for t in tasks]
    if any(v is None for v in views):
        mon.out_of_domain(name)
        return
    kinds = "".join(v.kind[0] for v in views)
    if call.exc is not None:
        empties = [i for i, v in enumerate(views) if v.kind == "constant" and not v.terms]
        if isinstance(call.exc, IndexError) and empties:
            mon.violation("constant-empty-sum-raises",
                          f"kinds={kinds}: {_tdesc(views[empties[0]], empties[0])} is the empty sum (constant 0) -> {call.exc!r}")
        else:
            mon.violation("estimation-raised", f"kinds={kinds}: {call.exc!r} for {[_tdesc(v, i) for i, v in enumerate(views)][:4]}")
        return
    res = call.result
    try:
        res = list(res)
    except Exception:
        mon.violation("result-count", f"kinds={kinds}: result {res!r} is not a list")
        return
    if len(res) != len(tasks):
        mon.violation("result-count", f"kinds={kinds}: {len(res)} results for {len(tasks)} tasks")
        return
    measured = [i for i, v in enumerate(views) if v.kind == "measured"]
    delivered = {}
    if call.pre is not None:
        new = runner.batches[call.pre:]
        if len(new) != (1 if measured else 0):
            mon.violation("runner-calls", f"kinds={kinds}: {len(new)} batch call(s) to the runner for {len(measured)} measurable task(s)")
            return
        if measured:
            b = new[0]
            want_c = [tasks[i].circuit for i in measured]
            want_s = [views[i].shots for i in measured]
            if len(b["circuits"]) != len(want_c) or any(x is not y and x != y for x, y in zip(b["circuits"], want_c)) or list(b["shots"]) != want_s:
                mon.violation("runner-request", f"kinds={kinds}: the runner was asked for shots {list(b['shots'])} on {len(b['circuits'])} circuits; "
                              f"the measurable tasks {measured} carry shots {want_s}")
                return
            delivered = {i: m for i, m in zip(measured, b["results"])}
    expected = [_expected_vector(v, delivered.get(i)) for i, v in enumerate(views)]
    for i, (v, r, exp) in enumerate(zip(views, res, expected)):
        if r is None or not hasattr(r, "values"):
            mon.violation("result-missing", f"kinds={kinds}: no result at position {i} for {_tdesc(v, i)}: {r!r}")
            return
        vals = _vals(r)
        n_exp = 1 if v.kind != "measured" else len(v.terms)
        if len(vals) != n_exp:
            mon.violation("term-count", f"kinds={kinds}: {len(vals)} values {vals!r} at position {i} for {_tdesc(v, i)}")
            return
        if exp is None:
            if not all(abs(x) <= abs(c) * (1 + 1e-12) for x, (_o, c) in zip(vals, v.terms)):
                mon.violation("value-outside-range", f"kinds={kinds}: values {vals!r} at position {i} exceed the coefficients of {_tdesc(v, i)}")
                return
            mon.note("measured-task-without-exact-expectation")
            continue
        # a basis state: "exactly coefficient times eigenvalue regardless of shot count" - no tolerance at all
        exact_required = v.kind == "measured" and v.bits is not None
        # otherwise 1e-12 relative to the size of the coefficients involved (not to the expected value, which may be 0)
        mags = [abs(c) for _o, c in v.terms]
        scales = mags if v.kind == "measured" and len(mags) == len(exp) else [sum(mags)] * len(exp)
        if not (_vec_close(vals, exp, 0.0) if exact_required else
                (len(vals) == len(exp) and all(_close(x, y, 1e-12 * max(1.0, m)) for x, y, m in zip(vals, exp, scales)))):
            src = [j for j, e in enumerate(expected) if j != i and e is not None and _vec_close(vals, e)]
            where = f" - that is the result of task #{src[0]}" if src else ""
            kind = {"constant": "constant-value", "zeroshot": "zero-shot-value"}.get(
                v.kind, "basis-state-value" if v.bits is not None else "estimate-vs-delivered-shots")
            if v.kind == "constant" and len(v.terms) >= 2 and len(vals) == 1 and _close(vals[0], v.terms[0][1]):
                kind = "constant-unsimplified-sum-first-term-only"
            elif src:
                kind = "result-at-wrong-index"
            mon.violation(kind, f"kinds={kinds}: position {i} holds {vals!r}, expected {exp!r}{where} for {_tdesc(v, i)}"
                          + (f" basis state {v.bits}" if v.kind == "measured" and v.bits is not None else ""))
            return
    for v in views:
        mon.note(f"task:{v.kind}" + (":basis" if v.kind == "measured" and v.bits is not None else ""))
        if v.kind == "constant":
            mon.note("constant-form:" + ("empty" if not v.terms else v.form))
    if len(set(kinds)) >= 2:
        mon.note("mixed-kind-list-judged")
    _note_aliasing(mon, "avg", tasks)
    mon.ok(name)


def _note_aliasing(mon, tag, tasks):
    """tallies for the evidence: which kinds of object sharing the judged lists contained"""
    if len({id(t) for t in tasks}) < len(tasks):
        mon.note(f"{tag}:list-repeats-a-task-object")
    distinct = list({id(t): t for t in tasks}.values())
    if len({id(t.circuit) for t in distinct}) < len(distinct):
        mon.note(f"{tag}:tasks-share-a-circuit-object")
    if len({id(t.operator) for t in distinct}) < len(distinct):
        mon.note(f"{tag}:tasks-share-an-operator-object")


def _post_split(mon, call):
    name = "split"
    tasks = call.args[0] if call.args else call.kwargs.get("estimation_tasks")
    try:
        tasks = list(tasks)
    except Exception:
        mon.out_of_domain(name)
        return
    views = [_task_view(t) for t in tasks]
    if any(v is None for v in views) or call.exc is not None:
        mon.out_of_domain(name)
        return
    try:
        tm, tn, im, inn = call.result
        tm, tn, im, inn = list(tm), list(tn), list(im), list(inn)
    except Exception:
        mon.violation("split-shape", f"result {call.result!r} is not four lists")
        return
    exp_m = [i for i, v in enumerate(views) if v.kind == "measured"]
    exp_n = [i for i, v in enumerate(views) if v.kind != "measured"]
    kinds = "".join(v.kind[0] for v in views)
    if im != exp_m or inn != exp_n:
        mon.violation("split-indices", f"kinds={kinds}: indices to measure {im}, not to measure {inn}; expected {exp_m} / {exp_n}")
        return
    if len(tm) != len(im) or len(tn) != len(inn) or any(a is not tasks[i] and a != tasks[i] for a, i in zip(tm, im)) \
            or any(a is not tasks[i] and a != tasks[i] for a, i in zip(tn, inn)):
        mon.violation("split-tasks", f"kinds={kinds}: the task lists do not hold the tasks named by the index lists")
        return
    mon.ok(name)


def _post_nonmeasured(mon, call):
    name = "non_measured"
    tasks = call.args[0] if call.args else call.kwargs.get("estimation_tasks")
    try:
        tasks = list(tasks)
    except Exception:
        mon.out_of_domain(name)
        return
    views = [_task_view(t) for t in tasks]
    if any(v is None or v.kind == "measured" for v in views):
        mon.out_of_domain(name)  # a measurable task here is refused by the library (RuntimeError) - not part of the property
        return
    kinds = "".join(v.kind[0] for v in views)
    if call.exc is not None:
        empties = [i for i, v in enumerate(views) if not v.terms]
        if isinstance(call.exc, IndexError) and empties:
            mon.violation("constant-empty-sum-raises", f"kinds={kinds}: {_tdesc(views[empties[0]], empties[0])} is the empty sum (constant 0) -> {call.exc!r}")
        else:
            mon.violation("non-measured-raised", f"kinds={kinds}: {call.exc!r}")
        return
    res = list(call.result)
    if len(res) != len(tasks):
        mon.violation("result-count", f"non-measured kinds={kinds}: {len(res)} results for {len(tasks)} tasks")
        return
    for i, (v, r) in enumerate(zip(views, res)):
        vals = _vals(r)
        exp = _expected_vector(v)
        if not _vec_close(vals, exp):
            kind = "constant-value" if v.kind == "constant" else "zero-shot-value"
            if v.kind == "constant" and len(v.terms) >= 2 and len(vals) == 1 and _close(vals[0], v.terms[0][1]):
                kind = "constant-unsimplified-sum-first-term-only"
            mon.violation(kind, f"non-measured kinds={kinds}: position {i} holds {vals!r}, expected {exp!r} for {_tdesc(v, i)}")
            return
    mon.ok(name)


def _post_exact(mon, call):
    name = "exact"
    runner = call.args[0] if call.args else call.kwargs.get("runner")
    tasks = call.args[1] if len(call.args) > 1 else call.kwargs.get("estimation_tasks")
    inner = getattr(runner, "inner", runner)
    try:
        tasks = list(tasks)
    except Exception:
        mon.out_of_domain(name)
        return
    if type(inner).__name__ not in SIM_NAMES:
        mon.out_of_domain(name)
        return
    specs = []
    for t in tasks:
        try:
            op, circ = t.operator, t.circuit
            view = _circ_view(circ)
            terms = _terms(op)
            ok = (_is_op(op) and view is not None and terms and circ.n_qubits <= 11 and not circ.free_symbols
                  and all(nm in G.REF_GATES for nm, _q, _p in view)
                  and max([q + 1 for ops, _c in terms for q, _o in ops] or [0]) <= circ.n_qubits
                  and all(_real(c) for _o, c in terms))
            if not ok:
                raise ValueError
            specs.append((circ.n_qubits, [(nm, qs, tuple(float(p) for p in ps)) for nm, qs, ps in view], terms))
        except Exception:
            mon.out_of_domain(name)
            return
    if call.exc is not None:
        mon.violation("exact-raised", f"{call.exc!r} for {len(tasks)} tasks; first circuit {G.circ_str({'n': specs[0][0], 'ops': specs[0][1]}) if specs else None}")
        return
    res = list(call.result)
    if len(res) != len(tasks):
        mon.violation("result-count", f"exact: {len(res)} results for {len(tasks)} tasks")
        return
    exps = []
    for n, ops, terms in specs:
        psi = G.ref_state(n, ops)
        exps.append(G.ref_expectation(terms, psi, n).real)
    for i, (r, e) in enumerate(zip(res, exps)):
        vals = _vals(r)
        scale = max(1e-300, sum(abs(c) for _o, c in specs[i][2]))  # relative to the coefficients: tiny ones count
        if len(vals) != 1 or not (abs(complex(vals[0]) - e) <= 1e-9 * scale):
            src = [j for j, x in enumerate(exps) if j != i and len(vals) == 1 and abs(complex(vals[0]) - x) <= 1e-9 * scale]
            mon.violation("result-at-wrong-index" if src else "exact-value",
                          f"exact: position {i} holds {vals!r}, psi^dagger M psi = {e!r}" + (f" - that is the value of task #{src[0]}" if src else "")
                          + f" for {G.circ_str({'n': specs[i][0], 'ops': specs[i][1]})} and terms {specs[i][2][:5]}")
            return
    if any(o in "XY" for _n, _ops, terms in specs for ops, _c in terms for _q, o in ops):
        mon.note("exact:non-diagonal-operator")
    _note_aliasing(mon, "exact", tasks)
    mon.ok(name)


def _pview(circuit):
    v = _circ_view(circuit)
    return None if v is None else (circuit.n_qubits, v)


def _pre_bind(mon, call):
    tasks = call.args[0] if call.args else call.kwargs.get("estimation_tasks")
    maps = call.args[1] if len(call.args) > 1 else call.kwargs.get("symbols_maps")
    try:
        # the maps as they are handed in (a mapping that answers for missing keys - defaultdict, Counter, a dict
        # subclass with __missing__ - lists only what it LISTS: plain copies of the items)
        mon.c15_maps_before = [dict(m.items()) for m in maps] if all(isinstance(m, dict) for m in maps) else None
    except Exception:
        mon.c15_maps_before = None
    try:
        return [(_pview(t.circuit), t.operator, t.number_of_shots) for t in tasks]
    except Exception:
        return None


def _num(expr, probes):
    import sympy

    e = sympy.sympify(expr)
    if e.free_symbols:
        e = e.xreplace({s: probes[s] for s in e.free_symbols})
    return complex(sympy.N(e, 30))


def _post_bind(mon, call):
    import sympy

    name = "bind"
    tasks = call.args[0] if call.args else call.kwargs.get("estimation_tasks")
    maps = call.args[1] if len(call.args) > 1 else call.kwargs.get("symbols_maps")
    pre = call.pre
    try:
        tasks = list(tasks)
        maps = list(maps)
    except Exception:
        mon.out_of_domain(name)
        return
    if pre is None or len(maps) != len(tasks) or any(p[0] is None for p in pre) \
            or not all(isinstance(m, dict) and all(isinstance(k, sympy.Symbol) and isinstance(x, (int, float)) and not isinstance(x, bool)
                                                   for k, x in m.items()) for m in maps):
        mon.note("bind:outside-domain(maps-length-or-type)")
        mon.out_of_domain(name)
        return
    if call.exc is not None:
        mon.violation("bind-raised", f"{call.exc!r} for maps {maps!r}"[:500])
        return
    res = list(call.result)
    if len(res) != len(tasks):
        mon.violation("result-count", f"bind: {len(res)} tasks for {len(tasks)} tasks")
        return
    listed = getattr(mon, "c15_maps_before", None)
    if listed is not None and len(listed) == len(maps):
        for i, (m, m0) in enumerate(zip(maps, listed)):
            if dict(m.items()) != m0:
                mon.violation("bind-mutated-map", f"bind: map #{i} ({type(m).__name__}) listed {m0!r} before the call and lists {dict(m.items())!r} after it")
                return
        if any(type(m) is not dict for m in maps):
            mon.note("bind:map-kinds-other-than-dict")
        # what a map binds is what it listed when it was handed in
        maps = [m if type(m) is dict else m0 for m, m0 in zip(maps, listed)]
    syms = sorted({s for (n, view), _o, _s in pre for _nm, _q, ps in view for p in ps for s in sympy.sympify(p).free_symbols}, key=str)
    probes = {s: sympy.Float(0.37 + 0.113 * k) for k, s in enumerate(syms)}
    for i, (t_in, t_out, m, (pv, op0, shots0)) in enumerate(zip(tasks, res, maps, pre)):
        if _pview(t_in.circuit) != pv or t_in.operator is not op0 or t_in.number_of_shots != shots0:
            mon.violation("bind-mutated-input", f"bind: input task #{i} changed: {pv} -> {_pview(t_in.circuit)}")
            return
        if t_out.operator is not op0 and t_out.operator != op0:
            mon.violation("bind-changed-operator", f"bind: task #{i} operator {op0!r} became {t_out.operator!r}")
            return
        if t_out.number_of_shots != shots0:
            mon.violation("bind-changed-shots", f"bind: task #{i} shots {shots0!r} became {t_out.number_of_shots!r}")
            return
        ov = _pview(t_out.circuit)
        n, view = pv
        if ov is None or ov[0] != n or [(a, b) for a, b, _c in ov[1]] != [(a, b) for a, b, _c in view]:
            mon.violation("bind-changed-circuit", f"bind: task #{i} circuit structure {view} became {ov}")
            return
        for k, ((_nm, _q, ps_in), (_nm2, _q2, ps_out)) in enumerate(zip(view, ov[1])):
            for p_in, p_out in zip(ps_in, ps_out):
                want = sympy.sympify(p_in).xreplace({s: sympy.Float(x) if isinstance(x, float) else sympy.Integer(x) for s, x in m.items()})
                got = sympy.sympify(p_out)
                if got.free_symbols != want.free_symbols or abs(_num(got, probes) - _num(want, probes)) > 1e-12 * max(1.0, abs(_num(want, probes))):
                    others = [j for j, mj in enumerate(maps) if j != i and mj is not m and
                              abs(_num(sympy.sympify(p_in).xreplace({s: sympy.Float(x) for s, x in mj.items()}), probes) - _num(got, probes)) <= 1e-12
                              and sympy.sympify(p_in).xreplace({s: sympy.Float(x) for s, x in mj.items()}).free_symbols == got.free_symbols]
                    mon.violation("bind-wrong-map", f"bind: task #{i} gate #{k} parameter {p_in} became {p_out}, its own map {m} gives {want}"
                                  + (f" - that is what map #{others[0]} gives" if others else ""))
                    return
    if len(tasks) >= 2:
        mon.note("bind:>=2-tasks-judged")
    _note_aliasing(mon, "bind", tasks)
    if len({id(m) for m in maps}) < len(maps):
        mon.note("bind:maps-share-a-dict-object")
    for i in range(len(tasks)):
        used = {s for _nm, _q, ps in pre[i][0][1] for p in ps for s in sympy.sympify(p).free_symbols}
        if any(tasks[j].circuit is tasks[i].circuit and any(maps[j].get(s) != maps[i].get(s) for s in used) for j in range(i)):
            mon.note("bind:one-circuit-object-bound-with-differing-maps")
            break
    for i in range(len(tasks)):
        used = {s for _nm, _q, ps in pre[i][0][1] for p in ps for s in sympy.sympify(p).free_symbols}
        if any(tasks[j].circuit is not tasks[i].circuit and pre[j][0] == pre[i][0] and any(maps[j].get(s) != maps[i].get(s) for s in used)
               for j in range(i)):
            mon.note("bind:equal-but-distinct-circuits-bound-with-differing-maps")
            break
    mon.ok(name)


def install(mon, reach):
    from orquestra.quantum.estimation import _estimation as E

    reach.watch(E.estimate_expectation_values_by_averaging, "averaging", markers={"measured": r"run_batch_and_measure\("})
    reach.watch(E.split_estimation_tasks_to_measure, "split",
                markers={"not_measured": r"indices_not_to_measure\.append", "measured": r"indices_to_measure\.append"})
    reach.watch(E.evaluate_non_measured_estimation_tasks, "non_measured",
                markers={"constant": r"^\s+coefficient = (?!0\.0)", "zero_shot": r"^\s+coefficient = 0\.0"})
    reach.watch(E.calculate_exact_expectation_values, "exact")
    reach.watch(E.evaluate_estimation_circuits, "bind")
    mon.hook_func(E, "estimate_expectation_values_by_averaging", pre=_pre_avg, post=_post_avg, name="averaging")
    mon.hook_func(E, "split_estimation_tasks_to_measure", post=_post_split, name="split")
    mon.hook_func(E, "evaluate_non_measured_estimation_tasks", post=_post_nonmeasured, name="non_measured")
    mon.hook_func(E, "calculate_exact_expectation_values", post=_post_exact, name="exact")
    mon.hook_func(E, "evaluate_estimation_circuits", pre=_pre_bind, post=_post_bind, name="bind")


# ----------------------------------------------------------------------------- workload
def _sequences(kmax):
    out = []
    for k in range(kmax + 1):
        out.extend(itertools.product(G.KINDS, repeat=k))
    return out


def _runner(rng, recording=None):
    from orquestra.quantum.runners.symbolic_simulator import SymbolicSimulator

    seed = rng.randint(0, 10**6)
    rec = rng.random() < 0.6 if recording is None else recording
    extra = rng.choice([0, 0, 2, 5])

    def make():
        sim = SymbolicSimulator(seed=seed)
        return G.RecordingRunner(sim, extra) if rec else sim

    return make, (f"Recording(+{extra})" if rec else "Symbolic") + f"[seed={seed}]"


def _mix(kinds):
    return len(set(kinds)) >= 2


def run_case(ctx):
    import sympy

    from orquestra.quantum import estimation as EST

    rng = ctx.rng
    cls = ctx.cls
    # dyadic scale (sums and products with +-1 stay exact); one case in six far below the 1e-8 below which the
    # operator algebra drops coefficients when it simplifies, or far above 1
    scale = 2.0 ** rng.randint(-3, 3) if rng.random() < 0.84 else 2.0 ** rng.choice([-40, -34, -30, -27, 20, 40])

    if cls in ("kinds_exh", "random_long", "superposition"):
        if cls == "kinds_exh":
            seqs = _sequences(4 if ctx.quick else 6)
            if ctx.index >= len(seqs):
                raise Exhausted()
            kinds = list(seqs[ctx.index])
        elif cls == "random_long":
            n = rng.randint(5, 30 if ctx.quick else 60)
            if ctx.index % 5 == 4:
                # lists beyond any batch of 32 / 64 / 128 tasks, lengths on both sides of the multiples
                n = rng.choice([63, 64, 65, 66, 97, 121, 129, 131])
                ctx.mon.note("random_long:beyond-64-tasks")
            w = [rng.random() + 0.05 for _ in G.KINDS]
            kinds = rng.choices(G.KINDS, weights=w, k=n)
        else:
            kinds = rng.choices(G.KINDS, weights=[3, 1, 1], k=rng.randint(1, 6))
        specs = [G.make_task(rng, k, i, scale, basis=(cls != "superposition" or rng.random() < 0.3)) for i, k in enumerate(kinds)]
        if cls != "kinds_exh" and rng.random() < 0.5:
            G.alias_specs(rng, specs)
            kinds = [t["kind"] for t in specs]
        make, rdesc = _runner(rng, recording=True if cls == "superposition" else None)
        perm = None
        if cls == "random_long":
            perm = list(range(len(specs)))
            rng.shuffle(perm)
        ctx.describe(f"avg {rdesc} " + " ".join(G.task_str(t) for t in specs) + (f" perm={perm}" if perm else ""),
                     _mix(kinds) if cls != "superposition" else any(t["kind"] == "measured" and G.basis_bits(t["circ"]) is None for t in specs))
        tasks = G.build_tasks(specs)
        try:
            res = EST.estimate_expectation_values_by_averaging(make(), tasks)
        except Exception:
            res = None  # the hook has recorded it
        if perm is not None and res is not None:
            try:
                res2 = EST.estimate_expectation_values_by_averaging(make(), [tasks[p] for p in perm])
            except Exception:
                res2 = None
            if res2 is not None:
                ok = len(res2) == len(perm) and all(
                    r2 is not None and r1 is not None and len(_vals(r2)) == len(_vals(r1)) and np.array_equal(_vals(r2), _vals(r1))
                    for r2, r1 in zip(res2, [res[p] for p in perm]))
                ctx.check("permutation-equivariance", ok,
                          lambda: f"estimating the permuted list {perm} does not give the permuted results: "
                                  f"{[_vals(r).tolist() if r is not None else None for r in res2][:6]} vs "
                                  f"{[_vals(res[p]).tolist() if res[p] is not None else None for p in perm][:6]}")
        return

    if cls == "non_measured_direct":
        n = rng.randint(1, 8)
        kinds = [rng.choice(["constant", "constant", "zeroshot"]) for _ in range(n)]
        specs = [G.make_task(rng, k, i, scale) for i, k in enumerate(kinds)]
        n2 = rng.randint(0, 8)
        kinds2 = [rng.choice(G.KINDS) for _ in range(n2)]
        specs2 = [G.make_task(rng, k, i, scale) for i, k in enumerate(kinds2)]
        if rng.random() < 0.5:
            G.alias_specs(rng, specs)  # never turns a non-measured task into a measurable one
            G.alias_specs(rng, specs2)
            kinds = [t["kind"] for t in specs]
        forms = {t["op"]["form"] for t in specs if t["kind"] == "constant"}
        ctx.describe("non_measured " + " ".join(G.task_str(t) for t in specs) + " | split " + " ".join(G.task_str(t) for t in specs2),
                     _mix(kinds) and bool(forms & {"unsimplified", "empty"}))
        tasks = G.build_tasks(specs)
        tasks2 = G.build_tasks(specs2)
        try:
            EST.evaluate_non_measured_estimation_tasks(tasks)
        except Exception:
            pass
        EST.split_estimation_tasks_to_measure(tasks2)
        EST.split_estimation_tasks_to_measure(tasks)
        return

    if cls == "exact":
        from orquestra.quantum.runners.symbolic_simulator import SymbolicSimulator

        from ..gen import runners as R

        n = rng.randint(1, 5)
        specs = []
        wide = ctx.index % 6 == 5
        if wide:
            # registers of 9 - 10 qubits (beyond a byte of basis-index bits), few tasks: basis states with a rotation or
            # two, Ising and general operators that reach the first and the last qubits
            n = rng.randint(1, 2)
            ctx.mon.note("exact:wide-register")
        for i in range(n):
            width = rng.randint(1, 4) if not wide else rng.choice([9, 9, 10])
            op = G.rand_pauli_op(rng, width, i, scale) if rng.random() < (0.8 if not wide else 0.3) else G.rand_ising_op(rng, width, i, scale)
            if wide:
                bits = [rng.randint(0, 1) for _ in range(width)]
                bits[0] = bits[1] = 1  # the qubits a byte-wide shortcut loses sit at the front
                ops_ = [("X", (q,), ()) for q, b in enumerate(bits) if b]
                if rng.random() < 0.5:
                    ops_.append(("RY", (rng.choice([0, 1, width - 1]),), (round(rng.uniform(0.3, 2.8), 3),)))
                circ = {"n": width, "ops": ops_}
            else:
                circ = G.rand_circ(rng, G.op_width(op)) if rng.random() < 0.85 else G.rand_basis_circ(rng, G.op_width(op))
            specs.append({"kind": "exact", "op": op, "circ": circ, "shots": rng.choice([None, 0, 10])})
        if rng.random() < 0.5:
            G.alias_specs(rng, specs)
        rk = rng.choice(["symbolic", "symbolic", "default", "partial", "recording"])
        again = None
        if n >= 2 and rng.random() < 0.3:  # a second call of the same runner on the same task objects, reordered
            again = list(range(n))
            rng.shuffle(again)
        ctx.describe(f"exact {rk} " + " ".join(G.task_str(t) for t in specs) + (f" again={again}" if again else ""),
                     n >= 2 and any(o in "XY" for t in specs for ops, _c in t["op"]["terms"] for _q, o in ops))
        _Echo, Partial, DefaultSim = R.classes()
        if rk == "symbolic":
            runner = SymbolicSimulator()
        elif rk == "default":
            runner = DefaultSim()
        elif rk == "partial":
            runner = Partial(rng.choice([R.NATIVE_SETS["rot"], R.NATIVE_SETS["x-cnot"], R.NATIVE_SETS["none"]]))
        else:
            runner = G.RecordingRunner(SymbolicSimulator())
        tasks = G.build_tasks(specs)
        try:
            EST.calculate_exact_expectation_values(runner, tasks)
            if again:
                EST.calculate_exact_expectation_values(runner, [tasks[p] for p in again])
        except Exception:
            pass
        return

    if cls == "sweep":
        # an optimisation loop: ONE runner object lives through many steps; every step builds its tasks afresh (the
        # circuits of a step die before the next step is built, so their addresses come back) and all circuits have
        # the same shape - same register, same number of operations - and differ only in WHICH gates they hold.
        # Anything the runner remembers per circuit identity, size or position meets a different circuit here.
        from orquestra.quantum.runners.symbolic_simulator import SymbolicSimulator

        width = rng.randint(2, 4)
        k = rng.randint(1, 3)
        sim = SymbolicSimulator(seed=rng.randint(0, 10**6))
        runner = G.RecordingRunner(sim, rng.choice([0, 0, 3])) if rng.random() < 0.4 else sim
        mode = rng.choice(["exact", "averaging", "both", "bind-then-exact"])
        steps = rng.randint(6, 14)
        ops = [G.rand_ising_op(rng, width, i, scale) for i in range(k)]
        ctx.describe(f"sweep {mode} width={width} tasks={k} steps={steps} " + " ".join(G.op_str(o) for o in ops), True)
        ctx.mon.note("sweep:" + mode)
        th = sympy.Symbol("theta")
        for step in range(steps):
            specs = []
            for i in range(k):
                w = max(width, G.op_width(ops[i]))
                bits = [rng.randint(0, 1) for _ in range(w)]
                circ = {"n": w, "ops": [("X" if b else "I", (q,), ()) for q, b in enumerate(bits)]}
                specs.append({"kind": "measured", "op": ops[i], "circ": circ, "shots": rng.choice([1, 3, 20])})
            tasks = G.build_tasks(specs)
            try:
                if mode == "bind-then-exact":
                    tasks = EST.evaluate_estimation_circuits(tasks, [{th: 0.1 * step} for _ in tasks])
                if mode in ("exact", "both", "bind-then-exact"):
                    EST.calculate_exact_expectation_values(sim, tasks)
                if mode in ("averaging", "both"):
                    EST.estimate_expectation_values_by_averaging(runner, tasks)
            except Exception:
                pass  # recorded by the hooks
            del tasks, specs
        return

    if cls == "bind":
        names = rng.sample(["theta_0", "theta_1", "theta_10", "phi", "lambda_", "x", "beta"], rng.randint(1, 4))
        symbols = {nm: sympy.Symbol(nm) for nm in names}
        if ctx.index % 3 == 0:
            # a TWIN: a second symbol that prints like the first one and is another symbol (declared real) - circuits and
            # maps use both; a map entry for the one binds the one
            twin = names[0] + "#real"
            names = names + [twin]
            symbols[twin] = sympy.Symbol(names[0], real=True)
            ctx.mon.note("bind-case:symbols-that-print-alike")
        n = rng.randint(1, 6)
        specs, maps, mdesc = [], [], []
        for i in range(n):
            width = rng.randint(1, 3)
            circ = G.rand_circ(rng, width, max_ops=6)
            ops = []
            for name, qs, ps in circ["ops"]:
                if ps and rng.random() < 0.75:
                    a = rng.choice([1, 1, 2, -1, 0.5])
                    b = rng.choice([0, 0, 0.25, -1])
                    ps = (("lin", a, rng.choice(names), b),)
                ops.append((name, qs, ps))
            circ["ops"] = ops
            kind = rng.choice(G.KINDS)
            op = G.rand_constant_op(rng, i, scale, rng.choice(["term", "sum1", "unsimplified"])) if kind == "constant" else G.rand_ising_op(rng, width, i, scale)
            specs.append({"kind": kind, "op": op, "circ": circ, "shots": 0 if kind == "zeroshot" else rng.choice([rng.randint(1, 50), rng.randint(1, 200)])})
            style = rng.choice(["full", "full", "partial", "extra", "empty"])
            use = list(names) if style in ("full", "extra") else (rng.sample(names, rng.randint(0, len(names))) if style == "partial" else [])
            m = {nm: rng.choice([round(rng.uniform(-3, 3), 3), rng.randint(-3, 3)]) for nm in use}
            if style == "extra":
                m["unused_sym"] = 1.5
            maps.append(m)
            mdesc.append("{" + ",".join(f"{k}:{v}" for k, v in m.items()) + "}")
        if rng.random() < 0.6:
            G.alias_specs(rng, specs)
        msrc = list(range(n))  # msrc[i] = j < i: task i's map IS the dict object of task j
        if n >= 2 and rng.random() < 0.3:
            for i in range(1, n):
                if rng.random() < 0.4:
                    msrc[i] = msrc[rng.randrange(i)]
                    maps[i] = maps[msrc[i]]
                    mdesc[i] = mdesc[msrc[i]] + f"@m{msrc[i]}"
        shift = rng.choice([None, None, 0.5, -1]) if any(maps) else None  # second call after changing the dicts in place

        def cstr(c):
            return "[%dq:%s]" % (c["n"], " ".join(
                nm + ("(" + ",".join(f"{p[1]}*{p[2]}+{p[3]}" if isinstance(p, tuple) else f"{p:g}" for p in ps) + ")" if ps else "") + "".join(map(str, qs))
                for nm, qs, ps in c["ops"]))

        shared = [nm for nm in names if len({str(m.get(nm)) for m in maps if nm in m}) >= 2]
        ctx.describe("bind " + " ".join(f"{t['kind'][0].upper()}({G.op_str(t['op'])},{cstr(t['circ'])},{t['shots']})<-{md}"
                                        for t, md in zip(specs, mdesc)) + (f" again+{shift}" if shift else ""), n >= 2 and bool(shared))
        symbols["unused_sym"] = sympy.Symbol("unused_sym")
        tasks = G.build_tasks(specs, symbols)
        lib_maps = [{symbols[k]: v for k, v in m.items()} for m in maps]
        if ctx.index % 3 == 1:
            # maps of other dict kinds, among them kinds that ANSWER for keys they do not list (a defaultdict even
            # starts listing them): a map binds the symbols it lists, the others stay free
            import collections

            class ZeroForMissing(dict):
                def __missing__(self, key):
                    return 0.0

            kinds_ = [lambda d: collections.defaultdict(float, d), lambda d: collections.Counter(d), ZeroForMissing,
                      lambda d: collections.OrderedDict(d), lambda d: collections.defaultdict(lambda: 1.0, d)]
            lib_maps = [rng.choice(kinds_)(d) if rng.random() < 0.7 else d for d in lib_maps]
            ctx.mon.note("bind-case:map-kinds-other-than-dict")
        lib_maps = [lib_maps[j] for j in msrc]
        try:
            EST.evaluate_estimation_circuits(tasks, lib_maps)
            if shift:
                for j in set(msrc):
                    for k in lib_maps[j]:
                        lib_maps[j][k] = lib_maps[j][k] + shift
                EST.evaluate_estimation_circuits(tasks, lib_maps)
        except Exception:
            pass
        return
    raise ValueError(cls)
